"""Shared driver machinery: build the harness, run TLC (model checking, generation, trace
validation), map rejections to replay files, write evidence.

Exit codes of a check: 0 held / 1 violation (VIOLATION line + replay file) / 2 tool error."""
import hashlib
import json
import os
import re
import shutil
import subprocess
import sys
import time
from concurrent.futures import ThreadPoolExecutor

VERIF = os.path.dirname(os.path.dirname(os.path.dirname(os.path.abspath(__file__))))
SPEC = os.path.join(VERIF, "spec")
HARNESS = os.path.join(VERIF, "harness")
CP = "/opt/veriftools/tla/tla2tools.jar:/opt/veriftools/tla/CommunityModules-deps.jar"
NCPU = os.cpu_count() or 4


class ToolError(Exception):
    pass


def log(*a):
    print(*a, flush=True)


def sh(cmd, timeout=None, env=None, cwd=None, input=None):
    e = dict(os.environ)
    if env:
        e.update(env)
    p = subprocess.run(cmd, stdout=subprocess.PIPE, stderr=subprocess.STDOUT, timeout=timeout,
                       env=e, cwd=cwd, input=input, text=True)
    return p.returncode, p.stdout


def load_findings():
    path = os.path.join(VERIF, "KNOWN_FINDINGS.json")
    if not os.path.exists(path):
        return []
    with open(path) as f:
        return json.load(f).get("findings", [])


class Ctx:
    def __init__(self, pid, tier, seed, replay=None):
        self.pid = pid
        self.tier = tier
        self.seed = seed
        self.replay = replay
        self.t0 = time.time()
        self.work = os.path.join(VERIF, "work", "%s-%d" % (pid, os.getpid()))
        shutil.rmtree(self.work, ignore_errors=True)
        os.makedirs(self.work)
        self.states = 0
        self.transitions = 0
        self.mc_runs = []
        self.traces_ok = 0
        self.evaluations = 0
        self.nontrivial = set()
        self.samples = []
        self.violations = []
        self.known_hits = {}
        self.assumptions = []
        self.extra = {}
        self.rule = ""
        self.bin = None
        self.findings = [f for f in load_findings() if pid in f.get("properties", [])]
        self.open_findings = sorted(f["name"] for f in self.findings if f.get("status") == "open")
        self.enforce = [pid]      # property ids whose oracles the trace specs enforce in this run

    # ------------------------------------------------------------------ build
    def build(self):
        t = time.time()
        lock_src = "/repo/rust/Cargo.lock"
        lock_dst = os.path.join(HARNESS, "Cargo.lock")
        if not os.path.exists(lock_dst):
            shutil.copy(lock_src, lock_dst)
        rc, out = sh(["cargo", "build", "--profile", "verif", "--offline"], cwd=HARNESS, timeout=1800,
                     env={"CARGO_NET_OFFLINE": "true"})
        if rc != 0:
            raise ToolError("harness build failed (tree does not compile?):\n" + out[-4000:])
        self.bin = os.path.join(HARNESS, "target", "verif", "vh")
        log("[build] harness built in %.1fs" % (time.time() - t))
        return self.bin

    def harness(self, args, stdin=None, timeout=3600, env=None):
        """Run the harness; returns stdout (str). A non-zero exit is a tool error (scenario-level
        panics are caught inside the harness or run in child processes and logged as data)."""
        if self.bin is None:
            self.build()
        e = dict(os.environ)
        e["VERIF_SEED"] = str(self.seed)
        if env:
            e.update(env)
        def limit():   # a runaway scenario must not take the machine down: 12 GiB address space
            import resource
            resource.setrlimit(resource.RLIMIT_AS, (12 << 30, 12 << 30))
        try:
            p = subprocess.run([self.bin] + args, input=stdin, stdout=subprocess.PIPE, stderr=subprocess.PIPE,
                               text=True, timeout=timeout, env=e, cwd=self.work, preexec_fn=limit)
        except subprocess.TimeoutExpired:
            raise ToolError("harness %s timed out after %ss" % (args, timeout))
        if p.returncode != 0:
            raise ToolError("harness %s exited %d:\n%s" % (args, p.returncode, p.stderr[-3000:]))
        return p.stdout

    # ------------------------------------------------------------------ TLC
    def _java(self, extra_jvm, tlc_args, env=None, timeout=900, cwd=SPEC):
        cmd = ["java", "-XX:+UseParallelGC"] + extra_jvm + ["-cp", CP, "tlc2.TLC"] + tlc_args
        try:
            rc, out = sh(cmd, timeout=timeout, env=env, cwd=cwd)
        except subprocess.TimeoutExpired:
            raise ToolError("TLC timed out after %ss: %s" % (timeout, " ".join(tlc_args)))
        return rc, out

    def mc(self, module, cfg=None, workers=None, timeout=900, simulate=None, require_actions=True,
           env=None, heap="8g"):
        """Exhaustive (or simulated) model checking of spec/<module>.tla with spec/<cfg>.
        Any invariant violation here is a defect of the *model* (it does not depend on /repo) and
        is reported as a tool error."""
        if os.environ.get("VERIF_SKIP_MC") == "1":   # selftest only: the model does not depend on /repo
            log("[mc] skipped (VERIF_SKIP_MC=1)")
            return ""
        cfg = cfg or (module + ".cfg")
        workers = workers or min(NCPU, 16)
        meta = os.path.join(self.work, "mc-" + module + "-" + re.sub(r"\W", "_", cfg))
        args = ["-workers", str(workers), "-coverage", "1", "-metadir", meta, "-cleanup",
                "-noGenerateSpecTE", "-config", cfg]
        if simulate:
            args += ["-simulate", simulate, "-seed", str(self.seed)]
        args += [module + ".tla"]
        t = time.time()
        rc, out = self._java(["-Xmx" + heap, "-Xss64m"], args, env=env, timeout=timeout)
        shutil.rmtree(meta, ignore_errors=True)
        st = parse_stats(out)
        if rc != 0 or "Error:" in out:
            with open(os.path.join(self.work, "mc-%s.out" % module), "w") as f:
                f.write(out)
            raise ToolError("model checking of %s/%s failed (rc=%d):\n%s" % (module, cfg, rc, tail_err(out)))
        cov = parse_coverage(out)
        zero = [a for a, n in cov.items() if n == 0]
        if require_actions and zero:
            raise ToolError("vacuity guard: actions never taken in %s/%s: %s" % (module, cfg, zero))
        self.states += st["distinct"]
        self.transitions += st["generated"]
        self.mc_runs.append({"module": module, "cfg": cfg, "generated": st["generated"],
                             "distinct": st["distinct"], "depth": st.get("depth"),
                             "actions": cov, "wall_s": round(time.time() - t, 1),
                             "mode": "simulate " + simulate if simulate else "exhaustive"})
        log("[mc] %s/%s: %d generated, %d distinct, depth %s, %.1fs" %
            (module, cfg, st["generated"], st["distinct"], st.get("depth"), time.time() - t))
        return out

    def gen(self, module, cfg, prefix="SCN", workers=None, timeout=900, env=None, count_states=True):
        """Run a generator configuration; returns the JSON payloads of PrintT(<<prefix, json>>)."""
        workers = workers or min(NCPU, 16)
        meta = os.path.join(self.work, "gen-" + module + "-" + re.sub(r"\W", "_", cfg))
        args = ["-workers", str(workers), "-metadir", meta, "-cleanup", "-noGenerateSpecTE",
                "-config", cfg, module + ".tla"]
        t = time.time()
        rc, out = self._java(["-Xmx8g", "-Xss64m"], args, env=env, timeout=timeout)
        shutil.rmtree(meta, ignore_errors=True)
        if rc != 0 or "Error:" in out:
            raise ToolError("generation %s/%s failed (rc=%d):\n%s" % (module, cfg, rc, tail_err(out)))
        res = []
        pat = re.compile(r'^<<"%s", "(.*)">>$' % re.escape(prefix))
        for line in out.splitlines():
            m = pat.match(line)
            if m:
                res.append(json.loads(m.group(1).replace('\\"', '"').replace("\\\\", "\\")))
        st = parse_stats(out)
        if count_states:
            self.states += st["distinct"]
            self.transitions += st["generated"]
        log("[gen] %s/%s: %d scenarios (%d distinct states) %.1fs" %
            (module, cfg, len(res), st["distinct"], time.time() - t))
        return res

    def _trace_once(self, module, cfg, path, idx, devs, timeout, stop_at=None):
        meta = os.path.join(self.work, "tr-%s-%d" % (module, idx))
        devfile = os.path.join(self.work, "devs-%s-%d.json" % (module, idx))
        with open(devfile, "w") as f:
            json.dump({"devs": list(devs), "props": list(self.enforce)}, f)
        env = {"TRACE": path, "DEVS": devfile, "STOPAT": str(stop_at or 0)}
        args = ["-workers", "1", "-metadir", meta, "-cleanup", "-noGenerateSpecTE", "-config", cfg,
                module + ".tla"]
        rc, out = self._java(["-Xmx3g", "-Xss1g", "-Dtlc2.tool.queue.IStateQueue=StateDeque"], args,
                             env=env, timeout=timeout)
        shutil.rmtree(meta, ignore_errors=True)
        return rc, out

    def validate(self, module, scenarios, cfg=None, timeout=3600, nproc=None, label=None,
                 nontrivial=None, max_rejects=5):
        """scenarios: list of (scenario_obj, [event dicts]) produced by the real code.
        Validates the concatenation against spec/<module>.tla (one TLC process per chunk).
        Returns number of accepted scenarios. Rejections become VIOLATION lines + replay files."""
        cfg = cfg or (module + ".cfg")
        nproc = nproc or min(NCPU, 16)
        if not scenarios:
            return 0
        # one TLC process per chunk, at most nproc at a time; a chunk holds at most ~25 000 events (TLC keeps the whole
        # recording in memory as one value)
        total_events = sum(len(ev) for _, ev in scenarios)
        nchunks = max(min(nproc, len(scenarios)), -(-total_events // 25000))
        chunks = [[] for _ in range(min(nchunks, len(scenarios)))]
        for i, s in enumerate(scenarios):
            chunks[i % len(chunks)].append(s)
        t = time.time()
        results = []
        with ThreadPoolExecutor(max_workers=nproc) as ex:
            futs = [ex.submit(self._validate_chunk, module, cfg, ch, i, timeout, max_rejects)
                    for i, ch in enumerate(chunks)]
            for f in futs:
                results.append(f.result())
        ok = sum(r[0] for r in results)
        nev = sum(len(ev) for _, ev in scenarios)
        self.traces_ok += ok
        self.evaluations += len(scenarios)
        log("[trace] %s%s: %d scenarios / %d events -> %d accepted, %.1fs" %
            (module, " (" + label + ")" if label else "", len(scenarios), nev, ok, time.time() - t))
        return ok

    def _validate_chunk(self, module, cfg, chunk, idx, timeout, max_rejects):
        accepted = 0
        rejects = 0
        pending = list(chunk)
        rnd = 0
        while pending:
            rnd += 1
            path = os.path.join(self.work, "trace-%s-%d-%d.ndjson" % (module, idx, rnd))
            owner = []
            with open(path, "w") as f:
                for si, (scn, evs) in enumerate(pending):
                    for ev in evs:
                        f.write(json.dumps(ev, separators=(",", ":")) + "\n")
                        owner.append(si)
            rc, out = self._trace_once(module, cfg, path, idx * 100 + rnd, self.open_findings, timeout)
            st = parse_stats(out)
            self.states += st["distinct"]
            self.transitions += st["generated"]
            self._known_lines(out)
            m = re.search(r'<<"REJECT", (\d+)(?:, (.*))?>>', out)
            inv = re.search(r"Invariant (\w+) is violated", out)
            if inv and inv.group(1) != "NotStop":
                # a state invariant failed on a state reached while explaining the trace
                pos = [int(x) for x in re.findall(r"^/\\ l = (\d+)", out, re.M)]
                line = (pos[-1] if pos else 1)
                failed_inv = inv.group(1)
                m = re.match(r"(\d+)", str(line))
            else:
                failed_inv = None
            if rc == 0 and "TRACE-ACCEPTED" in out and not m:
                accepted += len(pending)
                break
            ill_typed = None
            if not m and rc != 0 and "The behavior up to this point" in out:
                # TLC refuses to compare values of different kinds (e.g. an integer with a string) instead of answering
                # FALSE: the event being explained carries a value of a shape no specification state has. That is a
                # rejection of that event, not a failure of the tool.
                dm = re.search(r"(Attempted to (?:check equality|compare|apply|select|access)[^\n]*(?:\n[^\n]*){0,2})", out)
                pos = [int(x) for x in re.findall(r"^/\\ l = (\d+)", out, re.M)]
                if dm and pos:
                    ill_typed = " ".join(dm.group(1).split())[:240]
                    m = re.match(r"(\d+)", str(pos[-1]))
            if not m:
                with open(os.path.join(self.work, "trace-%s-%d-%d.out" % (module, idx, rnd)), "w") as f:
                    f.write(out)
                raise ToolError("trace validation of %s crashed (rc=%d):\n%s" % (module, rc, tail_err(out)))
            line = int(m.group(1))  # 1-based index of the first event no action accepts
            if line - 1 >= len(owner):
                # all events consumed but terminal condition failed
                si = len(pending) - 1
            else:
                si = owner[line - 1]
            accepted += si
            scn, evs = pending[si]
            first = owner.index(si)
            failed = sorted(set(re.findall(r'<<"FAILED", "([^"]+)", %d>>' % line, out)))
            if ill_typed:
                what = "event %d of the scenario cannot be a step of %s: it carries a value of a kind the specification never has (%s): %s" % (
                    line - first, module, ill_typed, json.dumps(evs[min(max(line - 1 - first, 0), len(evs) - 1)])[:300])
                state = None
            elif failed_inv:
                what = "invariant %s of %s violated while explaining the scenario (near event %d)" % (
                    failed_inv, module, line - first)
                state = out[out.rfind("\nState "):][:6000] if "\nState " in out else None
            else:
                state = self._state_before(module, cfg, path, idx * 100 + rnd + 50, line, timeout)
                what = "event %d of the scenario is not a step of %s%s: %s" % (
                    line - first, module, (" [failed: " + "; ".join(failed) + "]") if failed else "",
                    json.dumps(evs[min(line - 1 - first, len(evs) - 1)])[:300])
            self.violation(scn, evs, what, spec_state=state)
            rejects += 1
            pending = pending[si + 1:]
            if rejects >= max_rejects or len(self.violations) >= 8:
                break
        return accepted, rejects

    def _state_before(self, module, cfg, path, idx, line, timeout):
        """Re-run with the StopAt invariant to obtain the spec state before the rejected event."""
        try:
            rc, out = self._trace_once(module, cfg, path, idx, self.open_findings, timeout, stop_at=line)
        except ToolError:
            return None
        i = out.rfind("\nState ")
        if i < 0:
            return None
        return out[i:i + 6000].strip()

    def _known_lines(self, out):
        for m in re.finditer(r'<<"KNOWN", "([^"]+)", "([^"]+)"(?:, ([^>]*))?>>', out):
            self.known_hits.setdefault((m.group(1), m.group(2)), 0)
            self.known_hits[(m.group(1), m.group(2))] += 1

    # ------------------------------------------------------------------ results
    def violation(self, scenario, events, what, spec_state=None):
        d = os.path.join(os.environ.get("VERIF_REPLAY_DIR") or os.path.join(VERIF, "replays"), self.pid)
        os.makedirs(d, exist_ok=True)
        h = hashlib.sha1(json.dumps(scenario, sort_keys=True).encode()).hexdigest()[:10]
        path = os.path.join(d, "%d-%s.json" % (self.seed, h))
        with open(path, "w") as f:
            json.dump({"property": self.pid, "seed": self.seed, "tier": self.tier, "what": what,
                       "scenario": scenario, "events": events, "spec_state_before": spec_state}, f, indent=1)
        self.violations.append(path)
        if len(self.violations) <= 8:
            log("VIOLATION property=%s replay=%s" % (self.pid, path))
            log("  " + what[:400])

    def sample(self, obj, limit=6):
        if len(self.samples) < limit:
            self.samples.append(obj)

    def note_nontrivial(self, key):
        self.nontrivial.add(key)

    def finish(self):
        # known findings: print exactly one line per open finding that was exercised
        names = {f["name"]: f for f in self.findings}
        for (pid, name), n in sorted(self.known_hits.items()):
            f = names.get(name)
            if f is None or f.get("status") != "open":
                # a deviation fired that is not an open finding: cannot happen (disjunct disabled)
                raise ToolError("deviation %s fired but is not an open finding" % name)
            log("KNOWN-FINDING: property=%s %s: %s (%d occurrence(s) this run)" % (self.pid, name, f["what"], n))
        wall = time.time() - self.t0
        cov = {
            "states": self.states,
            "transitions": self.transitions,
            "traces_validated_against_impl": self.traces_ok,
            "samples": self.samples if self.samples else [{"note": "no sample recorded"}],
            "evaluations": self.evaluations,
            "distinct_nontrivial": len(self.nontrivial),
            "rule": self.rule,
            "model_checking_runs": self.mc_runs,
            "known_findings_hit": {"%s" % k[1]: v for k, v in self.known_hits.items()},
        }
        cov.update(self.extra)
        ev = {"property_id": self.pid, "tier": self.tier, "seed": self.seed, "level": "model_checking",
              "coverage": cov, "assumptions": self.assumptions, "wall_s": round(wall, 1),
              "violations": len(self.violations)}
        # (VERIF_EVIDENCE_DIR: development sweeps over seeds must not overwrite the committed evidence)
        evdir = os.environ.get("VERIF_EVIDENCE_DIR") or os.path.join(VERIF, "evidence")
        os.makedirs(evdir, exist_ok=True)
        with open(os.path.join(evdir, self.pid + ".json"), "w") as f:
            json.dump(ev, f, indent=1)
        shutil.rmtree(self.work, ignore_errors=True)
        log("[done] %s tier=%s seed=%d: states=%d transitions=%d traces_ok=%d/%d violations=%d wall=%.1fs" %
            (self.pid, self.tier, self.seed, self.states, self.transitions, self.traces_ok,
             self.evaluations, len(self.violations), wall))
        return 1 if self.violations else 0


def split_scenarios(stdout):
    """Harness output -> [(scenario, [events])]; the `_scn` meta lines carry the scenario."""
    res = []
    for line in stdout.splitlines():
        if not line.strip():
            continue
        ev = json.loads(line)
        if ev.get("ev") == "_scn":
            res.append((ev["scenario"], []))
        else:
            res[-1][1].append(ev)
    return res


def parse_stats(out):
    gen = dist = 0
    depth = None
    for m in re.finditer(r"(\d+) states generated, (\d+) distinct states found", out):
        gen, dist = int(m.group(1)), int(m.group(2))
    m = re.search(r"The depth of the complete state graph search is (\d+)", out)
    if m:
        depth = int(m.group(1))
    return {"generated": gen, "distinct": dist, "depth": depth}


def parse_coverage(out):
    """Per-action counts from `-coverage 1` output: `<Action line .. of module M>: distinct:total`."""
    cov = {}
    for m in re.finditer(r"^<(\w+) line \d+, col \d+ to line \d+, col \d+ of module (\w+)>: (\d+):(\d+)", out, re.M):
        name = m.group(1)
        if name in ("Init",):
            continue
        cov[name] = max(cov.get(name, 0), int(m.group(4)))
    return cov


def tail_err(out):
    i = out.find("Error:")
    if i >= 0:
        return out[i:i + 3000]
    return out[-2000:]


def chash(obj):
    return hashlib.sha1(json.dumps(obj, sort_keys=True).encode()).hexdigest()[:12]
