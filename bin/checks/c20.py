"""C20 - every output format renders the same route, geometry in edge order (Output.tla)."""
from lib import common


def run(ctx):
    quick = ctx.tier == "quick"
    ctx.build()
    ctx.mc("MC_Output", "MC_Output.cfg", require_actions=False)
    out = ctx.harness(["output", "--random", "1500" if quick else "100000", "--maxv", "9" if quick else "14"], timeout=3000)
    scns = common.split_scenarios(out)
    for s, evs in scns:
        if evs and evs[0].get("ev") == "Render" and len(evs[0].get("route", [])) >= 2:
            ctx.note_nontrivial(common.chash(s))
    rendered = [(s, e) for s, e in scns if e]
    ctx.extra["rendered"] = len(rendered)
    for s, evs in rendered[:1] + rendered[-1:]:
        # (an event of another kind - an error of the code under test - is judged by the trace, not here)
        ctx.sample({"route": evs[0].get("route"), "tree": evs[0].get("tree"), "out_wkt": (evs[0].get("out") or {}).get("wkt"), "first_event": evs[0].get("ev")})
    ctx.validate("Trace_Output", rendered, label="renderings")
    ctx.rule = ("scenario = route and tree of a real Dijkstra search on a seeded network x geometry table with 2..4 distinctive "
                "points per edge (25 % of the scenarios with a table that is too short) x all five route and tree formats "
                "(WKT / WKB / GeoJSON decoded back to coordinates) + UUID and summary plugins; non-trivial = route of at "
                "least two edges")
    ctx.assumptions += ["byte-level WKB / WKT encoding is trusted to the crates' own decoders; coordinates are small integers (exact in f32)"]
