"""C16 - map matching picks the nearest admissible element and honours the tolerance (MapMatch.tla)."""
from lib import common
from checks.searchfam import run_harness_scenarios, pinned


def run(ctx):
    quick = ctx.tier == "quick"
    ctx.build()
    ctx.mc("MC_MapMatch", "MC_MapMatch.cfg" if quick else "MC_MapMatch_t.cfg", timeout=3000)
    scns = run_harness_scenarios(ctx, "match", [p["scenario"] for p in pinned(ctx, "match")])
    out = ctx.harness(["match", "--random", "1500" if quick else "150000"])
    scns += common.split_scenarios(out)
    for s, evs in scns:
        if len(s["cands"]) >= 2 and (s["tol"]["on"] or s.get("allowed_on") or s.get("veh_on")):
            ctx.note_nontrivial(common.chash(s))
    for s, evs in scns[:1] + scns[-1:]:
        ctx.sample({"scenario": s, "event": {k: v for k, v in evs[0].items() if k in ("res", "msg", "unchanged")}})
    ctx.validate("Trace_MapMatch", scns, label="matches")
    ctx.rule = ("scenario = 1..7 candidates on a 1e-4-degree lattice (vertices, or edges as line strings centred on the "
                "lattice point with road class and 0..2 vehicle restrictions in mixed units) x query point inside, on the "
                "edge of and far outside the candidates x tolerance on/off in 5 units x road-class filter x vehicle "
                "parameters; cases within 3 % of the tolerance or 2 % of a restriction limit are not generated; "
                "non-trivial = at least two candidates and an active tolerance or filter")
    ctx.assumptions += ["candidates near the equator, where squared-degree order and great-circle order agree",
                        "great-circle distances are the code's own haversine, bound to the lattice geometry within 2 %"]
