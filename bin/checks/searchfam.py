"""Shared machinery of the search family (C01, C02, C03, C04, C05, C10): Search.tla model checking,
then real searches (decorator-recorded) validated step by step by Trace_Search.tla with the
property's own terminal oracles enforced."""
import json
from lib import common

MC_CFG = {
    # property -> (quick cfg, thorough cfg)
    "C01": ("MC_Search_q.cfg", "MC_Search.cfg"),
    "C02": ("MC_Search_cost_q.cfg", "MC_Search_cost.cfg"),
    "C03": ("MC_Search_delay_q.cfg", "MC_Search_delay.cfg"),
    "C04": ("MC_Search_front_q.cfg", "MC_Search_front.cfg"),
    "C05": ("MC_Search_q.cfg", "MC_Search.cfg"),
    "C10": ("MC_Search_limits_q.cfg", "MC_Search_limits.cfg"),
}


def pinned(ctx, check):
    return [f for f in ctx.findings if f.get("scenario", {}).get("check") == check]


def run_harness_scenarios(ctx, sub, scenarios, extra=None):
    if not scenarios:
        return []
    stdin = "\n".join(json.dumps(s) for s in scenarios) + "\n"
    out = ctx.harness([sub, "--scenarios"] + (extra or []), stdin=stdin)
    return common.split_scenarios(out)


def nontrivial_search(scn, evs, pid):
    improving = sum(1 for e in evs if e.get("ev") == "Relax" and e.get("valid"))
    if improving < 2:
        return False
    if pid == "C04":
        return any(e.get("ev") == "Relax" and not e.get("valid") for e in evs)
    if pid == "C03":
        return scn.get("acc") == "turn" or scn.get("wt", 0) > 0
    if pid == "C10":
        return scn.get("itl", -1) >= 0 or scn.get("szl", -1) >= 0
    if pid == "C05":
        return evs[-1].get("outcome") in ("nopath", "ok")
    return True


def run_family(ctx, n_quick, n_thorough, maxv_quick=9, maxv_thorough=14):
    pid = ctx.pid
    quick = ctx.tier == "quick"
    ctx.build()
    mc_q, mc_t = MC_CFG[pid]
    ctx.mc("MC_Search", mc_q if quick else mc_t, timeout=3000)
    scns = []
    # pinned scenarios of known findings (open: must be explained by the named deviation; fixed: must pass)
    pins = pinned(ctx, "search")
    scns += run_harness_scenarios(ctx, "search", [p["scenario"] for p in pins])
    # seeded random scenarios biased towards this property
    n = n_quick if quick else n_thorough
    out = ctx.harness(["search", "--random", str(n), "--maxv", str(maxv_quick if quick else maxv_thorough),
                       "--focus", pid.lower()], timeout=1800)
    scns += common.split_scenarios(out)
    for s, evs in scns:
        if nontrivial_search(s, evs, pid):
            ctx.note_nontrivial(common.chash(s))
    for s, evs in scns[:2] + scns[-1:]:
        ctx.sample({"scenario": s, "events": evs[1:4] + evs[-1:]})
    ctx.validate("Trace_Search", scns, label="searches")
    ctx.extra["outcomes"] = {}
    for s, evs in scns:
        o = evs[-1].get("outcome", "?")
        ctx.extra["outcomes"][o] = ctx.extra["outcomes"].get(o, 0) + 1
    ctx.assumptions += [
        "exact numeric profile: metres / m/s / seconds, integer weights and rate factors, so every state value is an integer and costs are compared in milli-units",
        "pops, termination tests and expansion ends are silent specification steps pinned by the recorded Relax stream, the iteration count and the final tree",
        "on an exact tie of tentative and existing label either comparison outcome is accepted (the code compares floating-point sums that differ in the last bits)",
    ]
