"""Shared machinery of the search family (C01, C02, C03, C04, C05, C10): Search.tla model checking,
then real searches (decorator-recorded) validated step by step by Trace_Search.tla with the
property's own terminal oracles enforced."""
import json
from lib import common

MC_CFG = {
    # property -> (quick cfgs, thorough cfgs)
    "C01": (["MC_Search_q.cfg"], ["MC_Search.cfg", "MC_Search_n4.cfg", "MC_Search_n4e4.cfg"]),
    "C02": (["MC_Search_cost_q.cfg", "MC_Search_units_q.cfg"], ["MC_Search_cost.cfg", "MC_Search_units.cfg", "MC_Search_off_q.cfg"]),
    "C03": (["MC_Search_delay_q.cfg", "MC_Search_units_q.cfg"], ["MC_Search_delay.cfg", "MC_Search_units.cfg", "MC_Search_off_q.cfg"]),
    "C04": (["MC_Search_front_q.cfg"], ["MC_Search_front.cfg"]),
    "C05": (["MC_Search_q.cfg"], ["MC_Search.cfg", "MC_Search_n4.cfg", "MC_Search_n4e4.cfg"]),
    "C10": (["MC_Search_limits_q.cfg", "MC_Search_rt_q.cfg"], ["MC_Search_limits.cfg", "MC_Search_rt.cfg"]),
}


GEN_CFG = {k: ([c.replace("MC_", "Gen_") for c in q], [c.replace("MC_", "Gen_") for c in t if "_n4" not in c and "_off_" not in c]) for k, (q, t) in MC_CFG.items()}
# state-feature units for the cost factors of the model's unit configurations (SearchScn!CuOf)
CU_UNITS = {(1000, 1, 1000, 1): ("meters", "seconds"), (1, 1, 50, 3): ("kilometers", "minutes"),
            (1000, 1, 5, 18): ("meters", "hours"), (1, 1, 1000, 1): ("kilometers", "seconds")}
VEH = {"height": [3, "meters"], "width": [8, "feet"], "total_length": [400, "inches"], "trailer_length": [5, "meters"],
       "total_weight": [10, "tons"], "number_of_axles": 3}


def from_tlc(scn):
    """A scenario record exported by TLC (MC_Search!Emit) -> a harness scenario. The heuristic is scripted (any
    function of the vertex, consistent or not): the traversal decorator adds h[v] metres to the estimate."""
    ne = len(scn["E"])
    h = scn["h"]
    astar = any(x != 0 for x in h)
    okv = scn["ok"]
    sd, st = CU_UNITS[tuple(scn["cu"])]
    return {
        "rtf": scn["rtf"], "rtx": scn["rtx"],
        "profile": "exact", "nv": scn["nv"], "xy": [[i, 0] for i in range(scn["nv"])], "E": scn["E"], "hd": scn["hd"],
        "src": scn["src"], "dst": scn["dst"], "dir": scn["dir"], "alg": "astar" if astar else "dijkstra", "wf": 1000 if astar else 0,
        "wf_src": "alg", "model": "speed" if ne > 0 else "distance", "wd": scn["wd"], "wt": scn["wt"], "rd": scn["rd"], "rt": scn["rt"], "sur": scn["sur"],
        "acc": scn["acc"], "delay": scn["delay"], "bad": [list(p) for p in scn["bad"]], "force_turn_model": bool(scn["bad"]),
        "itl": scn["itl"], "szl": scn["szl"], "init": scn["init"],
        # the traversal model computes in other units than the state features are declared in
        "units": {"distance": "meters", "time": "seconds", "speed": "mps", "delay": "seconds", "state_distance": sd, "state_time": st}
                 if (sd, st) == ("meters", "seconds") else
                 {"distance": "meters" if sd == "kilometers" else "kilometers", "time": "milliseconds", "speed": "kph", "delay": "minutes",
                  "state_distance": sd, "state_time": st},
        "cls": [0 if o else 1 for o in okv] if not all(okv) else [], "allowed_on": not all(okv), "allowed": [0] if not all(okv) else [],
        "allowed_query": [0] if not all(okv) else None,
        # the estimate is wf x wd x rd x hscript: h is given in milli-cost, so it only applies to pure distance cost
        "est_mode": "script", "hscript": [x / 1000.0 / max(1, scn["wd"] * scn["rd"]) for x in h],
        "orient": "vertex", "osrc": 0, "odst": 0, "cost_src": "config",
        "veh_on": False, "vrestr": [[] for _ in range(ne)], "veh": VEH,
    }


def tlc_scenarios(ctx, want):
    """Scenarios enumerated by TLC from the property's own model configuration (spec -> impl direction)."""
    q, t = GEN_CFG[ctx.pid]
    cfgs = q if ctx.tier == "quick" else t
    res = []
    ctx.extra["tlc_exported_scenarios"] = 0
    # number of scenarios of each bound (measured once; only used to choose the stride of the in-model sample)
    sizes = {"Gen_Search_q.cfg": 151620, "Gen_Search_cost_q.cfg": 430000, "Gen_Search_delay_q.cfg": 944736, "Gen_Search_front_q.cfg": 1000000,
             "Gen_Search_limits_q.cfg": 646380, "Gen_Search_rt_q.cfg": 574560, "Gen_Search_units_q.cfg": 500000}
    for cfg in cfgs:
        n = max(1, want // len(cfgs))
        stride = max(1, sizes.get(cfg, 3000000) // (2 * n))      # aim at twice the wanted number, then thin out
        raw = ctx.gen("MC_Search", cfg, timeout=6000, env={"STRIDE": str(stride), "OFFSET": str(ctx.seed % stride)})
        # the scripted heuristic is exact only for distance-only cost in base units; keep the others with h = 0
        raw = [r for r in raw if (r["wt"] == 0 and r["wd"] * r["rd"] >= 1 and r["cu"] == [1000, 1, 1000, 1]) or all(x == 0 for x in r["h"])]
        ctx.extra["tlc_exported_scenarios"] += len(raw)
        if len(raw) > n:
            step = len(raw) // n
            raw = raw[ctx.seed % step::step]
        res += [from_tlc(r) for r in raw]
    return res


def pinned(ctx, check):
    return [f for f in ctx.findings if f.get("scenario", {}).get("check") == check]


def run_harness_scenarios(ctx, sub, scenarios, extra=None):
    if not scenarios:
        return []
    stdin = "\n".join(json.dumps(s) for s in scenarios) + "\n"
    out = ctx.harness([sub, "--scenarios"] + (extra or []), stdin=stdin)
    return common.split_scenarios(out)


def nontrivial_search(scn, evs, pid):
    improving = sum(1 for e in evs if e.get("ev") == "Relax" and e.get("valid"))
    if improving < 2:
        return False
    if pid == "C04":
        return any(e.get("ev") == "Relax" and not e.get("valid") for e in evs)
    if pid == "C03":
        return scn.get("acc") == "turn" or scn.get("wt", 0) > 0
    if pid == "C10":
        return scn.get("itl", -1) >= 0 or scn.get("szl", -1) >= 0 or scn.get("rtf", 0) > 0
    if pid == "C05":
        return evs[-1].get("outcome") in ("nopath", "ok")
    return True


def run_family(ctx, n_quick, n_thorough, maxv_quick=9, maxv_thorough=14):
    pid = ctx.pid
    quick = ctx.tier == "quick"
    ctx.build()
    mc_q, mc_t = MC_CFG[pid]
    for cfg in (mc_q if quick else mc_t):
        ctx.mc("MC_Search", cfg, timeout=6000)
    scns = []
    # pinned scenarios of known findings (open: must be explained by the named deviation; fixed: must pass)
    pins = pinned(ctx, "search")
    scns += run_harness_scenarios(ctx, "search", [p["scenario"] for p in pins])
    # the exhaustive small scope of the model, replayed into the code (stride sample in the quick tier)
    scns += run_harness_scenarios(ctx, "search", tlc_scenarios(ctx, 2500 if quick else 60000))
    # seeded random scenarios biased towards this property
    n = n_quick if quick else n_thorough
    out = ctx.harness(["search", "--random", str(n), "--maxv", str(maxv_quick if quick else maxv_thorough),
                       "--focus", pid.lower()], timeout=1800)
    scns += common.split_scenarios(out)
    # the same kind of scenario submitted as a query through a CompassApp built from a configuration file and input
    # files; only the response is recorded (black box) and TLC looks for a behaviour of Search that ends in it
    out = ctx.harness(["appsearch", "--random", str(400 if quick else 10000), "--maxv", str(7 if quick else 10),
                       "--focus", pid.lower()], timeout=3000)
    app_scns = common.split_scenarios(out)
    ctx.extra["application_level_scenarios"] = len(app_scns)
    scns += app_scns
    for s, evs in scns:
        if nontrivial_search(s, evs, pid):
            ctx.note_nontrivial(common.chash(s))
    for s, evs in scns[:2] + scns[-1:]:
        ctx.sample({"scenario": s, "events": evs[1:4] + evs[-1:]})
    ctx.validate("Trace_Search", scns, label="searches")
    ctx.extra["outcomes"] = {}
    for s, evs in scns:
        o = evs[-1].get("outcome", "?")
        ctx.extra["outcomes"][o] = ctx.extra["outcomes"].get(o, 0) + 1
    ctx.assumptions += [
        "exact numeric profile: metres / m/s / seconds, integer weights and rate factors, so every state value is an integer and costs are compared in milli-units",
        "pops, termination tests and expansion ends are silent specification steps pinned by the recorded Relax stream, the iteration count and the final tree",
        "on an exact tie of tentative and existing label either comparison outcome is accepted (the code compares floating-point sums that differ in the last bits)",
    ]
