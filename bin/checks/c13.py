"""C13 - k-shortest-paths returns up to k valid, distinct routes, best first, and ends (Ksp.tla)."""
from lib import common
from checks.searchfam import run_harness_scenarios, pinned


def run(ctx):
    quick = ctx.tier == "quick"
    ctx.build()
    ctx.mc("MC_Ksp", "MC_Ksp.cfg" if quick else "MC_Ksp_t.cfg", timeout=3000)
    scns = run_harness_scenarios(ctx, "ksp", [p["scenario"] for p in pinned(ctx, "ksp")])
    out = ctx.harness(["ksp", "--random", "1200" if quick else "20000", "--maxv", "8" if quick else "12"], timeout=3000)
    scns += common.split_scenarios(out)
    for s, evs in scns:
        if len(evs[-1].get("routes", [])) >= 2:
            ctx.note_nontrivial(common.chash(s))
    for s, evs in scns[:1] + scns[-1:]:
        ctx.sample({"scenario": s, "result": evs[-1]})
    ctx.validate("Trace_Ksp", scns, label="ksp queries")
    ctx.rule = ("scenario = seeded network (edges often with a reverse twin) x origin/destination x k in 1..4 from the "
                "configuration or the query x single-via over Dijkstra x similarity (default accept-all, explicit accept-all, "
                "edge-id cosine 0.3/0.7, distance cosine 0.5/0.9) x distance/speed models with and without turn delays; "
                "each threshold query is repeated under accept-all; Yen's algorithm runs only on the pinned scenarios of "
                "its recorded findings (child process, 5 s); non-trivial = at least two routes returned")
    ctx.assumptions += ["Yen's algorithm (yens_algorithm::run) is recorded as defective (F-C13-b..e); it is exercised only through the pinned scenarios",
                        "the underlying search is Dijkstra, so the first route's optimality is unconditional"]
