"""C09 - unit conversions are linear, invertible and physically correct (Units.tla + Sci.tla)."""
from lib import common


def run(ctx):
    quick = ctx.tier == "quick"
    ctx.build()
    ctx.mc("MC_Units", "MC_Units.cfg", require_actions=False)
    out = ctx.harness(["units", "--random", "6" if quick else "600"])
    scns = common.split_scenarios(out)
    for s, evs in scns:
        if s.get("from") != s.get("to") or "ctor" in s:
            ctx.note_nontrivial(common.chash(s))
    for s, evs in scns[:1] + scns[len(scns) // 2:len(scns) // 2 + 1] + scns[-1:]:
        ctx.sample({"scenario": s, "events": evs})
    ctx.validate("Trace_Units", scns, label="conversions and constructors")
    ctx.extra["exhaustive_over_unit_pairs_and_triples"] = True
    ctx.rule = ("every ordered unit pair of the six families x fixed magnitudes {0,1,-3,7,1000,0.5,12.5,1e-3,123456.7,"
                "-0.25,1e6} + seeded magnitudes over 11 decades; every unit triple of the time/speed constructors x "
                "positive and non-positive inputs; every rate unit x distance unit of the energy constructor; "
                "non-trivial = distinct units or a constructor")
    ctx.assumptions += ["tons are US short tons (2000 lb), as the code's 907.185 kg factor states",
                        "six-digit decimal arithmetic inside TLC (relative error 1e-5) decides the 0.1 % statements"]
