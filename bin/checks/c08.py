"""C08 - vehicle energy and battery state follow the powertrain model (Powertrain.tla)."""
from lib import common


def run(ctx):
    quick = ctx.tier == "quick"
    ctx.build()
    ctx.mc("MC_Powertrain", "MC_Powertrain.cfg" if quick else "MC_Powertrain_t.cfg", timeout=3000)
    out = ctx.harness(["powertrain", "--random", "500" if quick else "12000"], timeout=3000)
    scns = common.split_scenarios(out)
    for s, evs in scns:
        if len(s["edges"]) >= 2 and s["veh"]["type"] != "ice":
            ctx.note_nontrivial(common.chash(s))
    for s, evs in scns[:1] + scns[-1:]:
        ctx.sample({"scenario": s, "events": [e["ev"] for e in evs]})
    ctx.validate("Trace_Powertrain", scns, label="edge histories")
    ctx.rule = ("scenario = vehicle (ICE / BEV / PHEV, capacity, real-world adjustment, ideal rate, linear rate model incl. "
                "negative rates on steep downhill, prediction-model speed/grade/rate units) x starting charge (valid, 0, 100, "
                "absent, outside 0-100) x 1..8 edges (length, table speed, grade) x time-model speed unit, grade-table unit, "
                "output distance/time units x prediction cache on/off; non-trivial = battery vehicle with at least two edges")
    ctx.assumptions += ["the prediction model is a harness table rate = a + b*speed + c*grade that logs what it is asked for",
                        "changes per edge compared at 0.3 % of the gross magnitude of the terms (two unit conversions compose; a rate near zero is a difference of larger terms)"]
