from checks import searchfam


def run(ctx):
    searchfam.run_family(ctx, 1500, 60000)
    # alternative routes of the single-via algorithm (forward half + re-oriented reverse half)
    from lib import common
    out = ctx.harness(["ksp", "--random", "400" if ctx.tier == "quick" else "30000", "--maxv", "8"], timeout=3000)
    ctx.validate("Trace_Ksp", common.split_scenarios(out), label="single-via alternatives")
    ctx.rule = ("scenario = seeded random network (2..N vertices on a milli-degree lattice, multigraph with self loops, "
                "metric and non-metric lengths) x query x algorithm x cost/access/frontier/limit configuration biased "
                "towards this property; distinct by hash of the scenario; non-trivial = at least two successful edge "
                "traversals and the property-specific feature exercised (see bin/checks/searchfam.py)")
