from checks import searchfam


def run(ctx):
    searchfam.run_family(ctx, 1500, 60000)
    # alternative routes of the single-via algorithm (forward half + re-oriented reverse half)
    from lib import common
    out = ctx.harness(["ksp", "--random", "400" if ctx.tier == "quick" else "30000", "--maxv", "8"], timeout=3000)
    scns = common.split_scenarios(out)
    # Yen's algorithm (accept-all, shortest route of at least three edges, k = 2..3; child processes): contiguity of its routes
    if ctx.pid == "C01":
        out = ctx.harness(["ksp", "--yen-limits", "60" if ctx.tier == "quick" else "600", "--maxv", "8", "--k3"], timeout=6000)
        scns += common.split_scenarios(out)
    ctx.validate("Trace_Ksp", scns, label="single-via alternatives" + (" / Yen routes" if ctx.pid == "C01" else ""))
    ctx.rule = ("scenario = seeded random network (2..N vertices on a milli-degree lattice, multigraph with self loops, "
                "metric and non-metric lengths) x query x algorithm x cost/access/frontier/limit configuration biased "
                "towards this property; distinct by hash of the scenario; non-trivial = at least two successful edge "
                "traversals and the property-specific feature exercised (see bin/checks/searchfam.py)")
