from checks import batchfam


def run(ctx):
    quick = ctx.tier == "quick"
    batchfam.run_family(ctx, 60 if quick else 3000, 16 if quick else 800, 16 if quick else 40, n_cli=80 if quick else 3000)
    ctx.rule = ("(a) application batches with ndjson / CSV file sinks, both persistence policies, flush rates 1/3/1000, two "
                "consecutive runs appending to the same file; (b) the real ResponseSink written by 2..16 threads released "
                "by a barrier, rows from 10 B to 600 kB, some already carrying an error and lacking a mapped field; "
                "non-trivial = >= 3 threads, or >= 3 queries with parallelism >= 2")
