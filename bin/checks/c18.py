"""C18 - strongly connected components are the mutual-reachability classes (Scc.tla)."""
import json
from lib import common
from checks.searchfam import run_harness_scenarios


def run(ctx):
    quick = ctx.tier == "quick"
    ctx.build()
    # every digraph on 4 vertices incl. self loops (65 536 graphs); thorough adds all loop-free digraphs on 5
    ctx.mc("MC_Scc", "MC_Scc.cfg")
    if not quick:
        ctx.mc("MC_Scc", "MC_Scc_5.cfg", timeout=3000)
    graphs = ctx.gen("MC_Scc", "Gen_Scc.cfg")          # the same 65 536 graphs, replayed into the code
    if quick:
        step = 8
        graphs = graphs[ctx.seed % step::step]
    scns = run_harness_scenarios(ctx, "scc", graphs)
    out = ctx.harness(["scc", "--random", "300" if quick else "3000", "--maxv", "40" if quick else "120"])
    scns += common.split_scenarios(out)
    for s, evs in scns:
        comps = evs[-1].get("comps", [])
        if any(len(c) >= 2 for c in comps) and len(comps) >= 2:
            ctx.note_nontrivial(common.chash(s))
    for s, evs in scns[:1] + scns[-2:]:
        ctx.sample({"scenario": s, "result": evs[-1]})
    ctx.validate("Trace_Scc", scns, label="component analyses")
    ctx.rule = ("graphs = all digraphs on 4 vertices exported by TLC (quick: every 8th, offset by seed) + seeded random "
                "multigraphs, chains with back edges and nested cycles; non-trivial = at least two components, one "
                "of them with two or more vertices")
    ctx.extra["exhaustive"] = not quick
