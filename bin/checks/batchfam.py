"""C06 / C19: Batch.tla model checking + validation of real application runs and of the real
response sink under contention (Trace_Batch.tla)."""
from lib import common
from checks.searchfam import run_harness_scenarios, pinned


def run_cli(ctx, n_cli, pid):
    """the command line runner (Cli.tla): model checking of every invocation within the bounds, then real invocations
    of command_line_runner judged by Trace_Cli.tla"""
    quick = ctx.tier == "quick"
    ctx.mc("MC_Cli", "MC_Cli.cfg" if quick else "MC_Cli_t.cfg", timeout=3000, workers=8 if quick else None)
    ctx.mc("MC_Cli", "MC_Cli_live.cfg", timeout=900, workers=4, require_actions=False)
    scns = []
    if pid == "C19":
        scns += run_harness_scenarios(ctx, "cli", [p["scenario"] for p in pinned(ctx, "cli")])
    out = ctx.harness(["cli", "--random", str(n_cli)] + ([] if pid == "C19" else ["--sorted-csv-only"]), timeout=3000)
    scns += common.split_scenarios(out)
    for s, evs in scns:
        if s.get("has") and s.get("nd") and s.get("n", 0) >= 1 and len(s.get("lines", [])) > s["n"] and s.get("fmt") != "none":
            ctx.note_nontrivial(common.chash(s))
    for s, evs in scns[:1]:
        ctx.sample({"scenario": {k: v for k, v in s.items() if k != "net"}, "events": [e for e in evs if e["ev"] in ("CliStart", "CliReturned", "CliEnd")][:3]})
    ctx.validate("Trace_Cli", scns, label="command line invocations")
    ctx.assumptions += [
        "command line runner: records of the response file are attributed to queries by the `qid` member the generated queries carry; JSON records are compared with the response the query produces alone, ignoring wall-clock stamps and the (unspecified) state-vector slot order",
    ]


def run_family(ctx, n_app, n_sink, maxq, n_cli=0):
    quick = ctx.tier == "quick"
    ctx.build()
    for cfg in ("MC_Batch_TRUE_TRUE.cfg", "MC_Batch_TRUE_FALSE.cfg", "MC_Batch_FALSE_TRUE.cfg"):
        ctx.mc("MC_Batch", cfg if quick else cfg.replace(".cfg", "_t.cfg"), timeout=3000)
    scns = run_harness_scenarios(ctx, "batch", [p["scenario"] for p in pinned(ctx, "batch")])
    out = ctx.harness(["batch", "--random", str(n_app), "--maxq", str(maxq)], timeout=3000)
    scns += common.split_scenarios(out)
    if n_sink:
        out = ctx.harness(["batch", "--sink", "--random", str(n_sink)], timeout=3000)
        scns += common.split_scenarios(out)
    for s, evs in scns:
        if "threads" in s:
            if s["threads"] >= 3:
                ctx.note_nontrivial(common.chash(s))
        elif len(s.get("queries", [])) >= 3 and s.get("par", 1) >= 2:
            ctx.note_nontrivial(common.chash(s))
    for s, evs in scns[:1] + scns[-1:]:
        ctx.sample({"scenario": {k: v for k, v in s.items() if k != "net"}, "events": [e for e in evs if e["ev"] in ("Balanced", "Returned", "SinkEnd")][:2]})
    ctx.validate("Trace_Batch", scns, label="batches / sink runs")
    if n_cli:
        run_cli(ctx, n_cli, ctx.pid)
    ctx.assumptions += [
        "thread schedules of the real pool are sampled (parallelism 1..8, repetitions, 2..16 barrier-released threads on the sink); exhaustive interleavings exist on the model only",
        "responses are compared on request echo, success/error, route cost, final distance/time and a hash of the error value",
    ]
