"""C06 / C19: Batch.tla model checking + validation of real application runs and of the real
response sink under contention (Trace_Batch.tla)."""
from lib import common
from checks.searchfam import run_harness_scenarios, pinned


def run_family(ctx, n_app, n_sink, maxq):
    quick = ctx.tier == "quick"
    ctx.build()
    for cfg in ("MC_Batch_TRUE_TRUE.cfg", "MC_Batch_TRUE_FALSE.cfg", "MC_Batch_FALSE_TRUE.cfg"):
        ctx.mc("MC_Batch", cfg if quick else cfg.replace(".cfg", "_t.cfg"), timeout=3000)
    scns = run_harness_scenarios(ctx, "batch", [p["scenario"] for p in pinned(ctx, "batch")])
    out = ctx.harness(["batch", "--random", str(n_app), "--maxq", str(maxq)], timeout=3000)
    scns += common.split_scenarios(out)
    if n_sink:
        out = ctx.harness(["batch", "--sink", "--random", str(n_sink)], timeout=3000)
        scns += common.split_scenarios(out)
    for s, evs in scns:
        if "threads" in s:
            if s["threads"] >= 3:
                ctx.note_nontrivial(common.chash(s))
        elif len(s.get("queries", [])) >= 3 and s.get("par", 1) >= 2:
            ctx.note_nontrivial(common.chash(s))
    for s, evs in scns[:1] + scns[-1:]:
        ctx.sample({"scenario": {k: v for k, v in s.items() if k != "net"}, "events": [e for e in evs if e["ev"] in ("Balanced", "Returned", "SinkEnd")][:2]})
    ctx.validate("Trace_Batch", scns, label="batches / sink runs")
    ctx.assumptions += [
        "thread schedules of the real pool are sampled (parallelism 1..8, repetitions, 2..16 barrier-released threads on the sink); exhaustive interleavings exist on the model only",
        "responses are compared on request echo, success/error, route cost, final distance/time and a hash of the error value",
    ]
