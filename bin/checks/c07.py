"""C07 - edge costs are finite and strictly positive; estimates are non-negative (CostModel.tla)."""
from lib import common
from checks.searchfam import run_harness_scenarios, pinned


def run(ctx):
    quick = ctx.tier == "quick"
    ctx.build()
    ctx.mc("MC_CostModel", "MC_CostModel_3.cfg" if quick else "MC_CostModel.cfg")
    if not quick:
        ctx.mc("MC_CostModel", "MC_CostModel_3.cfg")
    scns = run_harness_scenarios(ctx, "cost", [p["scenario"] for p in pinned(ctx, "cost")])
    cases = ctx.gen("MC_CostModel", "Gen_CostModel.cfg")
    if quick:
        cases = cases[ctx.seed % 4::4]
    scns += run_harness_scenarios(ctx, "cost", cases)
    out = ctx.harness(["cost", "--random", "3000" if quick else "400000"])
    scns += common.split_scenarios(out)
    for s, evs in scns:
        if evs and evs[0].get("ev") == "Charge" and (evs[0]["floored"] or len(s["F"]) >= 2):
            ctx.note_nontrivial(common.chash(s))
    for s, evs in scns[:1] + scns[-2:]:
        ctx.sample({"scenario": s, "events": evs})
    ctx.validate("Trace_CostModel", scns, label="edge charges")
    ctx.rule = ("case = aggregation x has-previous-edge x direction x 1..5 features (weight, vehicle rate incl. nested "
                "combined, network rate incl. edge / edge-pair / combined / tables not listing the edge, access and "
                "traversal state change incl. zero and negative); TLC-exported cases + seeded random; non-trivial = "
                "floored charge or at least two features")
    ctx.assumptions += ["integer weights, factors, offsets, surcharges and state changes (exact in f64)"]
