"""C14 - interpolated powertrain predictions stay faithful to the underlying model (Interp.tla)."""
from lib import common


def run(ctx):
    quick = ctx.tier == "quick"
    ctx.build()
    for cfg in ("MC_Interp.cfg", "MC_Interp_ml.cfg", "MC_Interp_1d.cfg") + (() if quick else ("MC_Interp_3d.cfg",)):
        ctx.mc("MC_Interp", cfg, timeout=3000)
    out = ctx.harness(["interp", "--random", "1500" if quick else "300000", "--isg", "100" if quick else "6000"], timeout=3000)
    scns = common.split_scenarios(out)
    for s, evs in scns:
        if "vehicle" in s or len(s.get("axes", [])) >= 2:
            ctx.note_nontrivial(common.chash(s))
    for s, evs in scns[:1] + scns[-1:]:
        ctx.sample({"scenario": s, "event": evs[0]})
    ctx.validate("Trace_Interp", scns, label="interpolations")
    ctx.rule = ("(a) grids of 1..3 dimensions with 2..5 non-uniformly spaced integer coordinates, integer tables (30 % "
                "multilinear functions), query points inside, on grid lines, on the upper boundary and outside, through "
                "the dimension-specific and the N-d interpolator; (b) the interpolated speed/grade model over the four "
                "bundled vehicles with random bounds and 2..25 x 2..21 bins, points inside / on grid lines / on the "
                "boundary / outside, in two input unit systems; non-trivial = a vehicle case or at least 2 dimensions")
    ctx.assumptions += ["six-digit decimal arithmetic inside TLC; results compared at 2e-5 of the largest corner magnitude",
                        "corner values of the speed/grade model come from the underlying model loaded separately by the harness"]
