from lib import common
from checks import searchfam


def run(ctx):
    searchfam.run_family(ctx, 1500, 60000)
    quick = ctx.tier == "quick"
    # limits inside the sub-searches of the k-shortest-paths algorithms: single-via queries under limits (its two
    # sub-searches are plain searches whose outcomes are recorded separately), and Yen's algorithm under a limit against
    # the same query without it (child processes)
    out = ctx.harness(["ksp", "--random", "600" if quick else "8000", "--maxv", "8" if quick else "12"], timeout=3000)
    scns = [(s, evs) for s, evs in common.split_scenarios(out) if s.get("itl", -1) >= 0 or s.get("szl", -1) >= 0]
    out = ctx.harness(["ksp", "--yen-limits", "60" if quick else "600", "--maxv", "8" if quick else "10"], timeout=6000)
    scns += common.split_scenarios(out)
    ctx.extra["ksp_scenarios_under_limits"] = len(scns)
    ctx.validate("Trace_Ksp", scns, label="k-shortest-paths under limits")
    ctx.rule = ("scenario = seeded random network (2..N vertices on a milli-degree lattice, multigraph with self loops, "
                "metric and non-metric lengths) x query x algorithm x cost/access/frontier/limit configuration biased "
                "towards this property; distinct by hash of the scenario; non-trivial = at least two successful edge "
                "traversals and the property-specific feature exercised (see bin/checks/searchfam.py)")
