from checks import batchfam


def run(ctx):
    quick = ctx.tier == "quick"
    batchfam.run_family(ctx, 120 if quick else 6000, 0, 24 if quick else 40, n_cli=60 if quick else 2000)
    ctx.rule = ("scenario = seeded network + batch of 1..N queries (valid, unreachable, tree search, failing in the input "
                "plugin, failing in search, missing origin, grid search over destinations, weight estimates) x configured "
                "and per-run parallelism 1..8 x persistence policy x sink kind, run twice; every query is also run alone "
                "and the bins are computed by the public load-balancing function; non-trivial = at least 3 queries and "
                "parallelism >= 2")
