from checks import searchfam


def run(ctx):
    searchfam.run_family(ctx, 1500, 60000)
    ctx.rule = ("scenario = seeded random network (2..N vertices on a milli-degree lattice, multigraph with self loops, "
                "metric and non-metric lengths) x query x algorithm x cost/access/frontier/limit configuration biased "
                "towards this property; distinct by hash of the scenario; non-trivial = at least two successful edge "
                "traversals and the property-specific feature exercised (see bin/checks/searchfam.py)")
