"""C11 - every state feature owns exactly one state-vector slot, at any feature count.
Spec: OrderedMap.tla (abstract sequence + the code's representation, refinement invariant),
StateModel.tla. Binding: TLC-exported histories and seeded histories replayed on the real
CompactOrderedHashMap / StateModel, every observer compared by TLC after every call."""
import json
from lib import common


def run(ctx):
    quick = ctx.tier == "quick"
    ctx.build()
    # 1. design level: every history of <= MaxOps inserts/overwrites from new(prefix of 0..NK keys)
    mc_cfg = "MC_OrderedMap.cfg" if not quick else "MC_OrderedMap_quick.cfg"
    ctx.mc("MC_OrderedMap", mc_cfg, timeout=1500)
    # 2. spec -> impl: histories exported by TLC
    hist = ctx.gen("MC_OrderedMap", "Gen_OrderedMap.cfg" if not quick else "Gen_OrderedMap_quick.cfg")
    stdin = "\n".join(json.dumps(h) for h in hist) + "\n"
    out = ctx.harness(["omap", "--stdin"], stdin=stdin)
    scns = common.split_scenarios(out)
    # 3. seeded random histories on 12 keys, incl. from_iter with duplicates and new() beyond 4 entries
    out = ctx.harness(["omap", "--random", "400" if quick else "5000"])
    scns += common.split_scenarios(out)
    for s, evs in scns:
        nkeys = (evs[-1].get("obs") or {}).get("len", 0) if evs else 0
        if nkeys >= 5:
            ctx.note_nontrivial(common.chash(s))
    ctx.sample({"scenario": scns[0][0], "events": scns[0][1][:2]})
    ctx.sample({"scenario": scns[-1][0], "events": scns[-1][1][-1:]})
    ctx.validate("Trace_OrderedMap", scns, label="container")
    # the state model built on it: new / extend / initial_state / get / set / add by name
    out = ctx.harness(["state", "--random", "500" if quick else "8000", "--app", "300" if quick else "5000"])
    sscns = common.split_scenarios(out)
    for s, evs in sscns:
        if s.get("app") or s.get("check") == "codec" or len(s["base"]) + sum(len(e) for e in s["extends"]) >= 5:
            ctx.note_nontrivial(common.chash(s))
    ctx.sample({"scenario": sscns[0][0], "events": [e["ev"] for e in sscns[0][1]]})
    ctx.validate("Trace_StateModel", sscns, label="state model")
    ctx.rule = ("histories = TLC-exported insert/overwrite histories (new key = smallest unused) from new(prefix) "
                "+ seeded random histories on 12 keys; non-trivial = distinct history reaching >= 5 keys "
                "(past the small-size specialisations); typed custom features (signed / unsigned integer, boolean, "
                "floating point incl. negative values) written and read back through the typed accessors among ordinary features")
    ctx.assumptions += ["CompactOrderedHashMap::new is called with distinct keys (documented: 'assumed sorted')",
                        "IndexedEntry fields read through its Debug output"]
