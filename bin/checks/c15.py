"""C15 - the loaded network is exactly the one described by the edge/vertex files (Network.tla)."""
from lib import common


def run(ctx):
    quick = ctx.tier == "quick"
    ctx.build()
    ctx.mc("MC_Network", "MC_Network.cfg")
    ctx.mc("MC_Network", "MC_Network_star.cfg")
    out = ctx.harness(["load", "--random", "400" if quick else "40000"])
    scns = common.split_scenarios(out)
    for s, evs in scns:
        deg = {}
        for e in s["E"]:
            deg[("o", e[0])] = deg.get(("o", e[0]), 0) + 1
            deg[("i", e[1])] = deg.get(("i", e[1]), 0) + 1
        if deg and max(deg.values()) >= 5:
            ctx.note_nontrivial(common.chash(s))
    for s, evs in scns[:1] + scns[-1:]:
        ctx.sample({"scenario": s, "events": evs[:2]})
    ctx.validate("Trace_Network", scns, label="loads")
    ctx.rule = ("scenario = edge list (multigraph, self loops, isolated vertices, stars with degree up to 12) + vertex "
                "coordinates, written plain or gzip, counts explicit or scanned, vertex columns permuted with an extra "
                "column, with/without trailing newline, + speed/grade/class/heading tables; non-trivial = some vertex "
                "with in- or out-degree >= 5 (past the adjacency container's small-size specialisations)")
    ctx.assumptions += ["documented preconditions: edge and vertex ids equal their row index, files are in id order, "
                        "explicit counts are correct"]
