"""C12 - no query batch can make the application panic, abort or run without bound (Robust.tla)."""
from lib import common
from checks.searchfam import run_harness_scenarios, pinned


def run(ctx):
    quick = ctx.tier == "quick"
    ctx.build()
    ctx.mc("MC_Robust", "MC_Robust.cfg")
    scns = run_harness_scenarios(ctx, "robust", [p["scenario"] for p in pinned(ctx, "robust")])
    out = ctx.harness(["robust", "--random", "700" if quick else "80000", "--timeout", "30"], timeout=7200)
    scns += common.split_scenarios(out)
    kinds = {}
    for s, evs in scns:
        tags = {b.get("tag") for b in s.get("batch", [])}
        if tags - {"valid"}:
            ctx.note_nontrivial(common.chash(s))
        k = evs[-1].get("kind")
        kinds[k] = kinds.get(k, 0) + 1
    ctx.extra["outcome_kinds"] = kinds
    for s, evs in scns[:2] + scns[-1:]:
        ctx.sample({"scenario": s, "outcome": evs[-1]})
    ctx.validate("Trace_Robust", scns, label="hostile batches")
    ctx.rule = ("scenario = plugin/search configuration (none, dijkstra, vertex rtree, edge rtree, grid search, load balancer "
                "haversine/custom, inject, combinations, CSV sink) x batch of 0..4 entries drawn from valid queries and ~22 "
                "hostile/unusual classes (non-object values, missing/ill-typed origin/destination, out-of-range ids and "
                "coordinates, same origin and destination, empty/degenerate/nested/non-object grid sections, zero and "
                "ill-typed weights, ill-typed weight factor / aggregation / vehicle rates / weight estimate); each run in a "
                "child process (4 GiB, 30 s); non-trivial = at least one non-valid entry")
    ctx.assumptions += ["the classification hostile / valid / any of each generated query is the harness'; 'any' classes only need to be answered",
                        "detecting the panic / hang itself is process-level observation; the specification decides the classification"]
