"""C17 - grid search expands into exactly the Cartesian product (GridSearch.tla)."""
import json
from lib import common
from checks.searchfam import run_harness_scenarios


def run(ctx):
    quick = ctx.tier == "quick"
    ctx.build()
    ctx.mc("MC_GridSearch", "MC_GridSearch.cfg" if quick else "MC_GridSearch_t.cfg")
    shapes = ctx.gen("MC_GridSearch", "Gen_GridSearch.cfg" if quick else "Gen_GridSearch_t.cfg")
    scns = run_harness_scenarios(ctx, "grid", shapes)
    out = ctx.harness(["grid", "--random", "600" if quick else "60000"])
    scns += common.split_scenarios(out)
    for s, evs in scns:
        n = sum(1 for e in evs if e["ev"] == "Emit")
        if len(s.get("axes", [])) >= 2 and n >= 4:
            ctx.note_nontrivial(common.chash(s))
    for s, evs in scns[:1] + scns[-2:]:
        ctx.sample({"scenario": s, "events": evs[:4]})
    ctx.validate("Trace_GridSearch", scns, label="expansions")
    ctx.rule = ("scenario = query + grid section (1..4 axes of 1..4 scalar/object/mixed choices, colliding and "
                "non-colliding keys, extra fields) run through MultiSet, GridSearchPlugin::process and "
                "apply_input_plugins; TLC-exported shapes (all shapes up to the bound) + seeded random; "
                "non-trivial = at least two axes and four generated queries (a carry happened)")
    ctx.assumptions += ["grid sections hold array-valued fields of length >= 1 (the property's quantifier); "
                        "empty/degenerate grid sections belong to C12"]
