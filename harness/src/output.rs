//! C20: the real TraversalOutputFormat (all five formats, routes and trees), UUID and summary
//! plugins on routes and trees produced by real searches.
use crate::search::*;
use crate::util::*;
use geo::LineString;
use rand::rngs::StdRng;
use rand::Rng;
use routee_compass::app::search::search_app_result::SearchAppResult;
use routee_compass::plugin::output::default::summary::plugin::SummaryOutputPlugin;
use routee_compass::plugin::output::default::traversal::plugin::TraversalPlugin;
use routee_compass::plugin::output::default::traversal::traversal_output_format::TraversalOutputFormat;
use routee_compass::plugin::output::default::uuid::plugin::UUIDOutputPlugin;
use routee_compass::plugin::output::output_plugin::OutputPlugin;
use routee_compass_core::algorithm::search::direction::Direction;
use routee_compass_core::algorithm::search::search_algorithm::SearchAlgorithm;
use routee_compass_core::model::network::VertexId;
use serde_json::{json, Value};
use std::str::FromStr;

fn pts(ls: &LineString<f32>) -> Vec<Value> {
    ls.points().map(|p| json!([p.x() as i64, p.y() as i64])).collect()
}
fn pts64(ls: &LineString<f64>) -> Vec<Value> {
    ls.points().map(|p| json!([p.x().round() as i64, p.y().round() as i64])).collect()
}
fn geo_coords(v: &Value) -> Vec<Value> {
    v.as_array().map(|a| a.iter().map(|p| json!([p[0].as_f64().unwrap_or(-1.0).round() as i64, p[1].as_f64().unwrap_or(-1.0).round() as i64])).collect()).unwrap_or_default()
}
fn unhex(s: &str) -> Vec<u8> {
    (0..s.len() / 2).map(|i| u8::from_str_radix(&s[2 * i..2 * i + 2], 16).unwrap_or(0)).collect()
}

fn run_scenario(out: &mut Out, scn: &Value, r: &mut StdRng) {
    out.scenario(scn);
    let b = match build_instance(scn) {
        Ok(b) => b,
        Err(e) => {
            out.event(json!({"ev": "BuildError", "msg": e}));
            return;
        }
    };
    let (src, dst) = (VertexId(ju(&scn["src"]) - 1), VertexId(ju(&scn["dst"]) - 1));
    let res = match SearchAlgorithm::Dijkstra.run_vertex_oriented(src, Some(dst), &json!({}), &Direction::Forward, &b.si) {
        Ok(r) if !r.routes.is_empty() && !r.routes[0].is_empty() => r,
        _ => return, // unreachable: nothing to render
    };
    let route = &res.routes[0];
    let tree = &res.trees[0];
    // geometry table: 2..4 distinctive points per edge; sometimes the table is too short (missing geometries)
    let ne = b.si.directed_graph.n_edges();
    let ngeoms = if scn["missing_geoms"].as_bool().unwrap_or(false) { r.gen_range(0..ne.max(1)) } else { ne };
    // as in real geometry files, an edge's line string starts at its source vertex and ends at its destination vertex (so
    // consecutive route edges share the joint coordinate), with 0..2 distinctive points in between; every fifth edge
    // stores one coordinate twice in a row
    let vxy = |v: usize| ((v * 1000 + 7) as f32, (v * 13 + 1) as f32);
    let geoms: Vec<LineString<f32>> = (0..ngeoms)
        .map(|e| {
            let edge = &b.si.directed_graph.edges[e];
            let mut p: Vec<(f32, f32)> = vec![vxy(edge.src_vertex_id.0)];
            for k in 0..(e % 3) {
                p.push(((e * 100 + k + 50) as f32, (e * 7 + 3 * k + 500) as f32));
                if e % 5 == 0 {
                    p.push(((e * 100 + k + 50) as f32, (e * 7 + 3 * k + 500) as f32));
                }
            }
            p.push(vxy(edge.dst_vertex_id.0));
            LineString::from(p)
        })
        .collect();
    let fmts = [("edge_id", TraversalOutputFormat::EdgeId), ("json", TraversalOutputFormat::Json), ("geo_json", TraversalOutputFormat::GeoJson),
                ("wkt", TraversalOutputFormat::Wkt), ("wkb", TraversalOutputFormat::Wkb)];
    let mut o = json!({});
    for (name, f) in fmts.iter() {
        let rr = f.generate_route_output(route, &geoms);
        o[*name] = match (*name, rr) {
            (_, Err(_)) => json!({"ok": false, "ids": [], "feats": [], "coords": []}),
            ("edge_id", Ok(v)) => json!({"ok": true, "ids": v}),
            ("json", Ok(v)) => json!({"ok": true, "ids": v.as_array().unwrap().iter().map(|x| x["edge_id"].clone()).collect::<Vec<_>>()}),
            ("geo_json", Ok(v)) => json!({"ok": true, "feats": v["features"].as_array().unwrap().iter().map(|f| json!({"id": f["id"], "pid": f["properties"]["edge_id"], "coords": geo_coords(&f["geometry"]["coordinates"])})).collect::<Vec<_>>()}),
            ("wkt", Ok(v)) => match wkt::Wkt::<f64>::from_str(v.as_str().unwrap()).ok().and_then(|w| LineString::<f64>::try_from(w).ok()) {
                Some(ls) => json!({"ok": true, "coords": pts64(&ls)}),
                None => json!({"ok": true, "coords": [["undecodable"]]}),
            },
            (_, Ok(v)) => match wkb::wkb_to_geom(&mut unhex(v.as_str().unwrap()).as_slice()) {
                Ok(geo::Geometry::LineString(ls)) => json!({"ok": true, "coords": pts64(&ls)}),
                _ => json!({"ok": true, "coords": [["undecodable"]]}),
            },
        };
        let tr = f.generate_tree_output(tree, &geoms);
        let key = format!("tree_{}", name);
        o[&key] = match (*name, tr) {
            (_, Err(_)) => json!({"ok": false, "ids": [], "lines": []}),
            ("edge_id", Ok(v)) => json!({"ok": true, "ids": v}),
            ("json", Ok(v)) => json!({"ok": true, "ids": v.as_array().unwrap().iter().map(|x| x["edge_traversal"]["edge_id"].clone()).collect::<Vec<_>>()}),
            ("geo_json", Ok(v)) => json!({"ok": true, "lines": v["features"].as_array().unwrap().iter().map(|f| json!(geo_coords(&f["geometry"]["coordinates"]))).collect::<Vec<_>>()}),
            ("wkt", Ok(v)) => match wkt::Wkt::<f64>::from_str(v.as_str().unwrap()).ok().and_then(|w| geo::MultiLineString::<f64>::try_from(w).ok()) {
                Some(m) => json!({"ok": true, "lines": m.0.iter().map(|ls| json!(pts64(ls))).collect::<Vec<_>>()}),
                None => json!({"ok": true, "lines": [[["undecodable"]]]}),
            },
            (_, Ok(v)) => match wkb::wkb_to_geom(&mut unhex(v.as_str().unwrap()).as_slice()) {
                Ok(geo::Geometry::MultiLineString(m)) => json!({"ok": true, "lines": m.0.iter().map(|ls| json!(pts64(ls))).collect::<Vec<_>>()}),
                _ => json!({"ok": true, "lines": [[["undecodable"]]]}),
            },
        };
    }
    // the same result through the traversal output PLUGIN (as the application calls it), built from a geometry file:
    // route and tree in the same format, and route only.  A result that cannot be rendered must make the plugin fail
    // (the application then answers with an error), never come back with the route silently missing.
    let gpath = scratch_dir().join("out-geoms.txt");
    let gtxt: String = geoms
        .iter()
        .map(|g| format!("LINESTRING ({})\n", g.points().map(|p| format!("{} {}", p.x(), p.y())).collect::<Vec<_>>().join(", ")))
        .collect();
    std::fs::write(&gpath, gtxt).unwrap();
    let probe: Result<(SearchAppResult, routee_compass_core::algorithm::search::search_instance::SearchInstance), routee_compass::app::compass::compass_app_error::CompassAppError> = Ok((
        SearchAppResult { routes: res.routes.clone(), trees: res.trees.clone(), search_executed_time: String::from("t"), search_runtime: std::time::Duration::from_millis(1), iterations: res.iterations },
        build_instance(scn).unwrap().si,
    ));
    let mut plug = json!({});
    for (name, f) in fmts.iter() {
        for with_tree in [true, false] {
            let key = format!("{}{}", name, if with_tree { "" } else { "_route_only" });
            let direct = f.generate_route_output(route, &geoms).ok();
            plug[&key] = match TraversalPlugin::from_file(&gpath, Some(*f), if with_tree { Some(*f) } else { None }) {
                Err(e) => json!({"built": false, "ok": false, "has_route": false, "same": false, "has_tree": false, "msg": e.to_string()}),
                Ok(p) => {
                    let mut o = json!({"request": {}});
                    let r = p.process(&mut o, &probe);
                    json!({"built": true, "ok": r.is_ok(), "has_route": o["route"].is_object(),
                           "same": direct.is_some() && Some(&o["route"]["path"]) == direct.as_ref(),
                           "has_tree": !o["tree"].is_null() && o.get("tree").is_some()})
                }
            };
        }
    }
    out.event(json!({"ev": "Render", "plug": plug, "route": route.iter().map(|e| e.edge_id.0).collect::<Vec<_>>(),
                     "tree": tree.values().map(|b| b.edge_traversal.edge_id.0).collect::<Vec<_>>(),
                     "geoms": geoms.iter().map(|g| json!(pts(g))).collect::<Vec<_>>(), "out": o}));
    // identifiers and summary through the real plugins
    let nv = b.si.directed_graph.n_vertices();
    let mut table: Vec<String> = (0..nv).map(|v| format!("uuid-{}-{}", v, (v * 7919) % 1000)).collect();
    // every other table is gzip-compressed, and some vertex in the middle has an empty identifier (an empty row): row i
    // still belongs to vertex i
    let gz = route.len() % 2 == 0;
    if nv >= 3 && route.len() % 3 != 0 {
        table[nv / 2] = String::new();
    }
    let upath = scratch_dir().join(if gz { "uuids.txt.gz" } else { "uuids.txt" });
    crate::load::write_file(&upath, &(table.join("\n") + "\n"), gz);
    let plugin = UUIDOutputPlugin::from_file(&upath).map_err(|e| e.to_string()).unwrap();
    let mut output = json!({"request": {"origin_vertex": src.0, "destination_vertex": dst.0}});
    let (want_r, want_t) = (res.routes.iter().map(|x| x.len()).sum::<usize>(), res.trees.iter().map(|x| x.len()).sum::<usize>());
    let sr: Result<(SearchAppResult, _), routee_compass::app::compass::compass_app_error::CompassAppError> = Ok((
        SearchAppResult { routes: res.routes, trees: res.trees, search_executed_time: String::from("t"), search_runtime: std::time::Duration::from_millis(1), iterations: res.iterations },
        b.si,
    ));
    let ok = plugin.process(&mut output, &sr).is_ok() && SummaryOutputPlugin {}.process(&mut output, &sr).is_ok();
    out.event(json!({"ev": "Ids", "ok": ok, "o": src.0, "d": dst.0, "table": table, "o_uuid": output["origin_vertex_uuid"], "d_uuid": output["destination_vertex_uuid"],
                     "route_edges": output["route_edges"], "tree_size": output["tree_size_count"], "want_route_edges": want_r, "want_tree_size": want_t}));
}

pub fn main(args: &[String]) -> i32 {
    let mut out = Out::new();
    let n = arg_usize(args, "--random", 200);
    let mut r = rng(20);
    let mut r2 = rng(2020);
    for _ in 0..n {
        let mut s = gen_scenario(&mut r, &GenOpts { max_v: arg_usize(args, "--maxv", 9), focus: String::from("c20") });
        // plain rates only: the renderer serialises the cost model, and the chained rate form cannot be serialised
        // (internally tagged newtype holding a sequence) - outside this property
        s["rate_chain"] = json!(false);
        s["od"] = json!(0);
        s["ot"] = json!(0);
        s["dir"] = json!("fwd");
        if ju(&s["dst"]) == 0 {
            s["dst"] = json!(if ju(&s["src"]) == 1 { 2 } else { 1 });
        }
        s["bad"] = json!([]);
        s["itl"] = json!(-1);
        s["szl"] = json!(-1);
        s["missing_geoms"] = json!(r.gen_bool(0.25));
        guarded(&mut out, |o| run_scenario(o, &s, &mut r2));
    }
    out.flush();
    0
}
