//! Builds a real CompassApp from a scenario: writes the network / table / geometry files and a
//! TOML configuration into the scratch directory and goes through CompassApp::try_from(path).
use crate::search::scratch_dir;
use routee_compass::app::compass::compass_app::CompassApp;
use serde_json::Value;
use std::path::PathBuf;

pub struct AppFiles {
    pub dir: PathBuf,
    pub config: PathBuf,
}

fn j_usize(v: &Value) -> usize {
    v.as_u64().unwrap() as usize
}

/// coordinates of vertex i (degrees) from milli-degree lattice coordinates
pub fn coord(net: &Value, i: usize) -> (f64, f64) {
    let xy = &net["xy"][i];
    (xy[0].as_i64().unwrap() as f64 / 1000.0, xy[1].as_i64().unwrap() as f64 / 1000.0)
}

/// net: {nv, xy (milli-degrees), E: [[s,d,len,spd]] 1-based}; opts: see fields read below
pub fn write_app(net: &Value, opts: &Value, tag: &str) -> AppFiles {
    let dir = scratch_dir().join(format!("app-{}", tag));
    std::fs::create_dir_all(&dir).unwrap();
    let nv = j_usize(&net["nv"]);
    let es = net["E"].as_array().unwrap();
    let mut etxt = String::from("edge_id,src_vertex_id,dst_vertex_id,distance\n");
    let mut stxt = String::new();
    let mut gtxt = String::new();
    for (i, e) in es.iter().enumerate() {
        let (s, d) = (j_usize(&e[0]) - 1, j_usize(&e[1]) - 1);
        etxt.push_str(&format!("{},{},{},{}\n", i, s, d, e[2]));
        stxt.push_str(&format!("{}\n", e[3]));
        let (a, b) = (coord(net, s), coord(net, d));
        // three-point line string: the midpoint is shifted by a per-edge offset so that geometries are distinguishable
        let mid = ((a.0 + b.0) / 2.0 + 0.0001 * ((i % 7) as f64 + 1.0), (a.1 + b.1) / 2.0 + 0.0001 * ((i % 5) as f64 + 1.0));
        gtxt.push_str(&format!("LINESTRING ({:.5} {:.5}, {:.5} {:.5}, {:.5} {:.5})\n", a.0, a.1, mid.0, mid.1, b.0, b.1));
    }
    let mut vtxt = String::from("vertex_id,x,y\n");
    for i in 0..nv {
        let c = coord(net, i);
        vtxt.push_str(&format!("{},{:.5},{:.5}\n", i, c.0, c.1));
    }
    std::fs::write(dir.join("edges.csv"), etxt).unwrap();
    std::fs::write(dir.join("vertices.csv"), vtxt).unwrap();
    std::fs::write(dir.join("speeds.txt"), stxt).unwrap();
    std::fs::write(dir.join("geoms.txt"), gtxt).unwrap();
    // grade table (energy configurations): mirrored up- and downhill grades on edges that often share a speed
    let grades: String = (0..es.len()).map(|i| format!("{}\n", [0.03, -0.03, 0.05, -0.05, 0.0][i % 5])).collect();
    std::fs::write(dir.join("grades.txt"), grades).unwrap();
    let p = |f: &str| dir.join(f).to_str().unwrap().to_string();
    let s = |k: &str, d: &str| opts[k].as_str().unwrap_or(d).to_string();
    let mut toml = String::new();
    toml.push_str(&format!("parallelism = {}\n", opts["parallelism"].as_u64().unwrap_or(2)));
    toml.push_str(&format!("search_orientation = \"{}\"\n", s("orientation", "vertex")));
    toml.push_str(&format!("response_persistence_policy = \"{}\"\n", s("persistence", "persist_response_in_memory")));
    if let Some(t) = opts["response_output_policy_toml"].as_str() {
        toml.push_str(t);
        toml.push('\n');
    }
    if let Some(t) = opts["state_toml"].as_str() {
        toml.push_str(t);
        toml.push('\n');
    }
    toml.push_str(&format!("[graph]\nedge_list_input_file = \"{}\"\nvertex_list_input_file = \"{}\"\nverbose = false\n", p("edges.csv"), p("vertices.csv")));
    toml.push_str(&opts["algorithm_toml"].as_str().unwrap_or("[algorithm]\ntype = \"a*\"\n").to_string());
    match opts["traversal_toml"].as_str() {
        Some(t) => toml.push_str(&t.replace("$SPEEDS", &p("speeds.txt")).replace("$GRADES", &p("grades.txt"))),
        None => toml.push_str(&format!(
            "[traversal]\ntype = \"speed_table\"\nspeed_table_input_file = \"{}\"\nspeed_unit = \"meters_per_second\"\ndistance_unit = \"meters\"\ntime_unit = \"seconds\"\n",
            p("speeds.txt")
        )),
    }
    toml.push_str("[access]\ntype = \"no_access_model\"\n");
    toml.push_str(&opts["cost_toml"].as_str().unwrap_or(
        "[cost]\ncost_aggregation = \"sum\"\n[cost.weights]\ndistance = 0\ntime = 1\n[cost.vehicle_rates.time]\ntype = \"raw\"\n[cost.vehicle_rates.distance]\ntype = \"raw\"\n",
    ).to_string());
    toml.push_str(&opts["frontier_toml"].as_str().unwrap_or("[frontier]\ntype = \"no_restriction\"\n").to_string());
    toml.push_str(&opts["termination_toml"].as_str().unwrap_or("[termination]\ntype = \"iterations\"\nlimit = 100000\n").to_string());
    let inputs = opts["input_plugins_toml"].as_str().unwrap_or("").replace("$VERTICES", &p("vertices.csv"));
    let outputs = opts["output_plugins_toml"]
        .as_str()
        .unwrap_or("{ type = \"summary\" }, { type = \"traversal\", route = \"json\", geometry_input_file = \"$GEOMS\" }")
        .replace("$GEOMS", &p("geoms.txt"));
    toml.push_str(&format!("[plugin]\ninput_plugins = [{}]\noutput_plugins = [{}]\n", inputs, outputs));
    let config = dir.join("config.toml");
    std::fs::write(&config, toml).unwrap();
    AppFiles { dir, config }
}

pub fn build_app(files: &AppFiles) -> Result<CompassApp, String> {
    CompassApp::try_from(files.config.as_path()).map_err(|e| e.to_string())
}

/// an energy traversal model over the speed table: one bundled ICE model with a real-world adjustment and a
/// (lossless: the table holds a handful of distinct speeds, no grades) prediction cache shared by all queries
pub const ENERGY_TRAVERSAL_TOML: &str = r#"[traversal]
type = "energy_model"
grade_table_input_file = "$GRADES"
grade_table_grade_unit = "decimal"
time_unit = "seconds"
distance_unit = "meters"
[traversal.time_model]
type = "speed_table"
speed_table_input_file = "$SPEEDS"
speed_unit = "meters_per_second"
distance_unit = "meters"
time_unit = "seconds"
[[traversal.vehicles]]
type = "ice"
name = "camry"
model_input_file = "/repo/rust/routee-compass-powertrain/src/routee/test/Toyota_Camry.bin"
model_type = "smartcore"
speed_unit = "miles_per_hour"
grade_unit = "percent"
energy_rate_unit = "gallons_gasoline_per_mile"
ideal_energy_rate = 0.02
real_world_energy_adjustment = 1.25
float_cache_policy = { cache_size = 1000, key_precisions = [2, 4] }
"#;
pub const ENERGY_COST_TOML: &str = "[cost]\ncost_aggregation = \"sum\"\n[cost.weights]\ndistance = 0\ntime = 0\nenergy_liquid = 1000\n[cost.vehicle_rates.time]\ntype = \"raw\"\n[cost.vehicle_rates.distance]\ntype = \"raw\"\n[cost.vehicle_rates.energy_liquid]\ntype = \"raw\"\n";
