//! C13: k-shortest-paths through the real SearchAlgorithm::{KspSingleVia, Yens}. Yen's algorithm can
//! fail to return: its scenarios run in a child process with a wall-clock limit.
use crate::search::*;
use crate::util::*;
use rand::rngs::StdRng;
use rand::Rng;
use routee_compass_core::algorithm::search::direction::Direction;
use routee_compass_core::algorithm::search::edge_traversal::EdgeTraversal;
use routee_compass_core::algorithm::search::search_algorithm::SearchAlgorithm;
use routee_compass_core::model::network::VertexId;
use routee_compass_core::model::unit::Cost;
use serde_json::{json, Value};
use std::io::Read;
use std::process::{Command, Stdio};
use std::time::{Duration, Instant};

fn underlying(scn: &Value) -> SearchAlgorithm {
    match scn["alg"].as_str().unwrap_or("dijkstra") {
        "dijkstra" => SearchAlgorithm::Dijkstra,
        _ => SearchAlgorithm::AStarAlgorithm { weight_factor: Some(Cost::new(jf(&scn["wf"]) / 1000.0)) },
    }
}
/// the [algorithm] section of a configuration for this scenario; the algorithm is deserialised from it as the
/// application does (absent similarity / termination = the defaults)
fn ksp_config(scn: &Value, sim: &Value) -> Value {
    let under = match scn["alg"].as_str().unwrap_or("dijkstra") {
        "dijkstra" => json!({"type": "dijkstra"}),
        _ => json!({"type": "a*", "weight_factor": jf(&scn["wf"]) / 1000.0}),
    };
    let mut cfg = json!({"type": if scn["kalg"] == "svp" { "ksp_single_via" } else { "yens" }, "k": ju(&scn["kcfg"]), "underlying": under});
    let p = sim["p"].as_f64().unwrap_or(0.0) / 10.0;
    match sim["type"].as_str().unwrap() {
        "accept_all" => {
            if sim["explicit"].as_bool().unwrap_or(false) {
                cfg["similarity"] = json!({"type": "accept_all"});
            }
        }
        "edge_id" => cfg["similarity"] = json!({"type": "edge_id_cosine_similarity", "threshold": p}),
        _ => cfg["similarity"] = json!({"type": "distance_weighted_cosine_similarity", "threshold": p}),
    }
    match scn["term"]["type"].as_str().unwrap_or("default") {
        "exact" if scn["term"]["explicit"].as_bool().unwrap_or(false) => cfg["termination"] = json!({"type": "exact"}),
        "max" => cfg["termination"] = json!({"type": "max_iteration", "max": scn["term"]["n"]}),
        "factor" => cfg["termination"] = json!({"type": "factor", "factor": scn["term"]["n"]}),
        _ => {}
    }
    cfg
}
fn ksp_alg(scn: &Value, sim: &Value) -> Result<SearchAlgorithm, String> {
    serde_json::from_value::<SearchAlgorithm>(ksp_config(scn, sim)).map_err(|e| format!("algorithm configuration: {}", e))
}

fn routes_json(lg: &Lg, routes: &[Vec<EdgeTraversal>]) -> Value {
    Value::Array(
        routes
            .iter()
            .map(|r| {
                Value::Array(
                    r.iter()
                        .map(|et| {
                            let st: Vec<f64> = et.result_state.iter().map(|s| s.0).collect();
                            json!({"e": et.edge_id.0 + 1, "st": lg.st(&st), "acc": lg.cost(et.access_cost), "trv": lg.cost(et.traversal_cost)})
                        })
                        .collect(),
                )
            })
            .collect(),
    )
}

/// runs one KSP query in this process and returns the KResult event
fn result_event(scn: &Value) -> Value {
    let b = match build_instance(scn) {
        Ok(b) => b,
        Err(e) => return json!({"ev": "KResult", "outcome": "build_error", "msg": e, "routes": [], "n_accept_all": -1, "first_len": 0}),
    };
    let lg = Lg { b: &b, exact: base_units(scn) };
    let mut query = json!({});
    if scn["k_src"].as_str().unwrap_or("cfg") == "query" {
        query["k"] = scn["k"].clone(); // the query overrides the configured k
    }
    let (src, dst) = (VertexId(ju(&scn["src"]) - 1), VertexId(ju(&scn["dst"]) - 1));
    let alg = match ksp_alg(scn, &scn["sim"]) {
        Ok(a) => a,
        Err(e) => return json!({"ev": "KResult", "outcome": "build_error", "msg": e, "routes": [], "n_accept_all": -1, "first_len": 0}),
    };
    // edge-oriented queries: the alternatives are searched between the far ends of the two query edges and every
    // returned route carries the origin edge in front and the destination edge at the end
    let edge_mode = scn["orient"].as_str().unwrap_or("vertex") == "edge";
    let r = if edge_mode {
        alg.run_edge_oriented(routee_compass_core::model::network::EdgeId(ju(&scn["osrc"]) - 1),
                              Some(routee_compass_core::model::network::EdgeId(ju(&scn["odst"]) - 1)), &query, &Direction::Forward, &b.si)
    } else {
        alg.run_vertex_oriented(src, Some(dst), &query, &Direction::Forward, &b.si)
    };
    let (outcome, msg) = outcome_of(&r);
    let mut ev = json!({"ev": "KResult", "outcome": outcome, "msg": msg, "routes": [], "ntrees": 0, "n_accept_all": -1, "first_len": 0});
    if let Ok(res) = &r {
        ev["routes"] = routes_json(&lg, &res.routes);
        ev["ntrees"] = json!(res.trees.len());
        ev["first_len"] = json!(res.routes.first().map(|r| r.len()).unwrap_or(0));
        // the same query under the default 'accept all' setting
        if scn["sim"]["type"] != "accept_all" && scn["kalg"] == "svp" && !edge_mode {
            if let Ok(all) = ksp_alg(scn, &json!({"type": "accept_all"})).and_then(|a| a.run_vertex_oriented(src, Some(dst), &query, &Direction::Forward, &b.si).map_err(|e| e.to_string())) {
                ev["n_accept_all"] = json!(all.routes.len());
            }
        }
    }
    ev
}

fn setup_of(scn: &Value) -> Value {
    // the Setup event of the search harness (scenario + estimate values) with the KSP parameters
    let mut ev = scn.clone();
    ev["ev"] = json!("Setup");
    let nv = ju(&scn["nv"]);
    ev["h"] = json!(vec![0; nv]);
    ev["gc"] = json!(vec![0; nv]);
    ev["init_obs"] = scn["init"].clone();
    ev["units"] = norm_units(scn);
    ev["rtf"] = json!(0);
    ev["rtx"] = json!(false);
    let (od, ot) = crate::search::rate_offsets(scn);
    ev["od"] = json!(od);
    ev["ot"] = json!(ot);
    // termination criterion: "default" is the exact criterion
    let t = scn["term"]["type"].as_str().unwrap_or("default");
    ev["term"] = json!({"type": if t == "default" { "exact" } else { t }, "n": scn["term"]["n"].as_i64().unwrap_or(0)});
    ev
}

pub fn child(path: &str) -> i32 {
    let scn: Value = serde_json::from_str(&std::fs::read_to_string(path).unwrap()).unwrap();
    println!("{}", result_event(&scn));
    0
}

fn run_in_child(scn: &Value, idx: usize, timeout: Duration) -> Value {
    let dir = scratch_dir();
    let p = dir.join(format!("ksp-scn-{}.json", idx));
    std::fs::write(&p, scn.to_string()).unwrap();
    let exe = std::env::current_exe().unwrap();
    let mut ch = Command::new(exe).arg("ksp-child").arg(&p).stdout(Stdio::piped()).stderr(Stdio::null()).spawn().expect("spawn");
    let t0 = Instant::now();
    let first_len = first_route_len(scn);
    loop {
        match ch.try_wait() {
            Ok(Some(st)) => {
                let mut so = String::new();
                let _ = ch.stdout.take().unwrap().read_to_string(&mut so);
                if st.success() {
                    if let Some(v) = so.lines().rev().find_map(|l| serde_json::from_str::<Value>(l).ok()) {
                        return v;
                    }
                }
                return json!({"ev": "KResult", "outcome": "panicked", "msg": "", "routes": [], "ntrees": 0, "n_accept_all": -1, "first_len": first_len});
            }
            Ok(None) => {
                if t0.elapsed() > timeout {
                    let _ = ch.kill();
                    let _ = ch.wait();
                    return json!({"ev": "KResult", "outcome": "timeout", "msg": "", "routes": [], "ntrees": 0, "n_accept_all": -1, "first_len": first_len});
                }
                std::thread::sleep(Duration::from_millis(3));
            }
            Err(_) => return json!({"ev": "KResult", "outcome": "aborted", "msg": "", "routes": [], "ntrees": 0, "n_accept_all": -1, "first_len": first_len}),
        }
    }
}

/// length of the shortest route (plain search), for the trigger condition of the recorded Yen findings
fn first_route_len(scn: &Value) -> usize {
    match build_instance(scn) {
        Ok(b) => underlying(scn)
            .run_vertex_oriented(VertexId(ju(&scn["src"]) - 1), Some(VertexId(ju(&scn["dst"]) - 1)), &json!({}), &Direction::Forward, &b.si)
            .ok()
            .and_then(|r| r.routes.first().map(|x| x.len()))
            .unwrap_or(0),
        Err(_) => 0,
    }
}

/// outcome of ONE plain search of the underlying algorithm (forward from the origin, or reverse from the destination)
/// under the scenario's limits - what the alternatives algorithm's own sub-searches will meet
fn plain_outcome(scn: &Value, reverse: bool) -> String {
    match build_instance(scn) {
        Ok(b) => {
            let (s, d) = (VertexId(ju(&scn["src"]) - 1), VertexId(ju(&scn["dst"]) - 1));
            let r = if reverse {
                underlying(scn).run_vertex_oriented(d, Some(s), &json!({}), &Direction::Reverse, &b.si)
            } else {
                underlying(scn).run_vertex_oriented(s, Some(d), &json!({}), &Direction::Forward, &b.si)
            };
            outcome_of(&r).0
        }
        Err(_) => String::from("build_error"),
    }
}

fn limited(scn: &Value) -> bool {
    ji(&scn["itl"]) >= 0 || ji(&scn["szl"]) >= 0
}

fn run_scenario(out: &mut Out, scn: &Value, idx: usize) {
    out.scenario(scn);
    out.event(setup_of(scn));
    if scn["yen_limits"].as_bool().unwrap_or(false) {
        // Yen's algorithm under a limit against the same query without it (both in child processes): a limited run
        // either ends 'terminated' or returns exactly what the unlimited run returns
        let mut unl = scn.clone();
        unl["itl"] = json!(-1);
        unl["szl"] = json!(-1);
        let a = run_in_child(&unl, 2 * idx, Duration::from_secs(5));
        let b = run_in_child(scn, 2 * idx + 1, Duration::from_secs(5));
        out.event(json!({"ev": "KLimit", "unl_outcome": a["outcome"], "unl_routes": a["routes"], "lim_outcome": b["outcome"],
                         "lim_routes": b["routes"], "lim_msg": b["msg"]}));
        return;
    }
    let mut ev = if scn["kalg"] == "yens" { run_in_child(scn, idx, Duration::from_secs(5)) } else { result_event(scn) };
    // single-via under limits: what its two sub-searches meet, from separate plain runs
    ev["fwd_out"] = json!(if limited(scn) { plain_outcome(scn, false) } else { String::from("ok") });
    ev["rev_out"] = json!(if limited(scn) { plain_outcome(scn, true) } else { String::from("ok") });
    out.event(ev);
}

/// scenarios for Yen's algorithm under limits: accept-all similarity and a shortest route of at least three edges (outside
/// the trigger conditions of the recorded findings that never return), k = 2..3, an iteration or size limit of the order
/// of what one sub-search needs
static K3: std::sync::atomic::AtomicBool = std::sync::atomic::AtomicBool::new(false);
fn gen_yen_limits(r: &mut StdRng, maxv: usize) -> Option<Value> {
    let mut s = gen(r, maxv);
    s["kalg"] = json!("yens");
    s["orient"] = json!("vertex");
    s["sim"] = json!({"type": "accept_all", "p": 0, "explicit": r.gen_bool(0.5)});
    s["term"] = json!({"type": "default", "n": 0});
    let k = if K3.load(std::sync::atomic::Ordering::Relaxed) { r.gen_range(3..=4) } else { r.gen_range(2..=3) };
    s["k"] = json!(k);
    s["kcfg"] = json!(k);
    s["k_src"] = json!("cfg");
    if first_route_len(&s) < 3 {
        return None;
    }
    // limits just above what the first (plain) search needs, so that the query gets past it and a later sub-search (with
    // cut edges) may be the one that is stopped
    let b = build_instance(&s).ok()?;
    let first = underlying(&s)
        .run_vertex_oriented(VertexId(ju(&s["src"]) - 1), Some(VertexId(ju(&s["dst"]) - 1)), &json!({}), &Direction::Forward, &b.si)
        .ok()?;
    let (it0, sz0) = (first.iterations as i64, first.trees.first().map(|t| t.len()).unwrap_or(0) as i64);
    if r.gen_bool(0.6) {
        s["itl"] = json!(it0 + r.gen_range(0..=3));
    } else {
        s["szl"] = json!(sz0 + r.gen_range(0..=2));
    }
    s["yen_limits"] = json!(true);
    Some(s)
}

fn gen(r: &mut StdRng, maxv: usize) -> Value {
    let mut s = gen_scenario(r, &GenOpts { max_v: maxv, focus: String::from("c13") });
    let nv = ju(&s["nv"]);
    s["dir"] = json!("fwd");
    if ju(&s["dst"]) == 0 {
        s["dst"] = json!(if ju(&s["src"]) == nv { 1 } else { ju(&s["src"]) + 1 });
    }
    s["bad"] = json!([]);
    s["force_turn_model"] = json!(false);
    s["itl"] = json!(-1);
    s["szl"] = json!(-1);
    s["rtf"] = json!(0);
    s["rtx"] = json!(false);
    s["sleep_at"] = json!(0);
    s["veh_on"] = json!(false);
    // a sixth of the single-via queries run under an iteration / size limit (each of its two sub-searches meets it)
    if r.gen_bool(0.17) {
        let nv = nv as i64;
        if r.gen_bool(0.6) {
            s["itl"] = json!(r.gen_range(0..=(nv + 1)));
        } else {
            s["szl"] = json!(r.gen_range(0..=nv));
        }
    }
    // underlying: Dijkstra, or A* with weight factor 1 (admissible on the metric networks only)
    let metric_ok = s["wf"].as_i64().unwrap_or(0) <= 1000;
    if s["alg"] == "astar" && !metric_ok {
        s["wf"] = json!(1000);
    }
    if s["alg"] == "astar" {
        s["alg"] = json!("dijkstra");      // keep optimality of the first route unconditional
        s["wf"] = json!(0);
    }
    s["wf_src"] = json!("alg");
    // denser networks: many edges get a reverse twin, so that alternatives exist
    let ne = s["E"].as_array().unwrap().len();
    for i in 0..ne {
        if r.gen_bool(0.5) {
            let e = s["E"][i].clone();
            s["E"].as_array_mut().unwrap().push(json!([e[1], e[0], e[2], e[3]]));
            let h = s["hd"][i].clone();
            s["hd"].as_array_mut().unwrap().push(h);
            s["sur"].as_array_mut().unwrap().push(json!(0));
            s["vrestr"].as_array_mut().unwrap().push(json!([]));
            if !s["cls"].as_array().unwrap().is_empty() {
                let c = s["cls"][i].clone();
                s["cls"].as_array_mut().unwrap().push(c);
            }
        }
    }
    let k = r.gen_range(1..=4);
    s["k"] = json!(k);
    let from_query = r.gen_bool(0.3);
    s["k_src"] = json!(if from_query { "query" } else { "cfg" });
    s["kcfg"] = json!(if from_query { 7 } else { k });
    s["kalg"] = json!("svp");
    let sims = [json!({"type": "accept_all"}), json!({"type": "accept_all", "explicit": true}), json!({"type": "edge_id", "p": 3}), json!({"type": "edge_id", "p": 7}),
                json!({"type": "distance", "p": 5}), json!({"type": "distance", "p": 9})];
    let mut sim = sims[r.gen_range(0..sims.len())].clone();
    if sim.get("p").is_none() {
        sim["p"] = json!(0);
    }
    s["sim"] = sim;
    // termination criterion of the alternatives loop: default, explicit exact, or the two conditional ones with values
    // below / at / above k (below: the criterion can never fire and only the final truncation keeps the count at k)
    // a fifth of the queries are edge oriented: origin and destination edges that are not adjacent (the inner search then
    // runs from the origin edge's end vertex to the destination edge's start vertex)
    s["orient"] = json!("vertex");
    s["osrc"] = json!(0);
    s["odst"] = json!(0);
    if r.gen_bool(0.2) {
        let es = s["E"].as_array().unwrap().clone();
        let pairs: Vec<(usize, usize)> = (0..es.len())
            .flat_map(|a| (0..es.len()).map(move |b| (a, b)))
            .filter(|(a, b)| a != b && es[*a][1] != es[*b][0])
            .collect();
        if !pairs.is_empty() {
            let (a, b) = pairs[r.gen_range(0..pairs.len())];
            s["orient"] = json!("edge");
            s["osrc"] = json!(a + 1);
            s["odst"] = json!(b + 1);
            s["src"] = es[a][1].clone();
            s["dst"] = es[b][0].clone();
        }
    }
    s["term"] = match r.gen_range(0..10) {
        0..=3 => json!({"type": "default", "n": 0}),
        4 => json!({"type": "exact", "explicit": true, "n": 0}),
        5..=7 => json!({"type": "max", "n": r.gen_range(0..=(k as i64 + 1))}),
        _ => json!({"type": "factor", "n": r.gen_range(0..=3)}),
    };
    s
}

pub fn main(args: &[String]) -> i32 {
    let mut out = Out::new();
    if has_flag(args, "--scenarios") {
        for (i, s) in read_scenarios().iter().enumerate() {
            guarded(&mut out, |o| run_scenario(o, s, i));
        }
    } else {
        let n = arg_usize(args, "--random", 200);
        let maxv = arg_usize(args, "--maxv", 8);
        let ny = arg_usize(args, "--yen-limits", 0);
        if ny > 0 {
            K3.store(has_flag(args, "--k3"), std::sync::atomic::Ordering::Relaxed);
            let mut r = rng(14);
            let (mut made, mut tries) = (0, 0);
            while made < ny && tries < 200 * ny {
                tries += 1;
                if let Some(s) = gen_yen_limits(&mut r, maxv) {
                    guarded(&mut out, |o| run_scenario(o, &s, made));
                    made += 1;
                }
            }
            out.flush();
            return 0;
        }
        let mut r = rng(13);
        for i in 0..n {
            let s = gen(&mut r, maxv);
            guarded(&mut out, |o| run_scenario(o, &s, i));
        }
    }
    out.flush();
    0
}
