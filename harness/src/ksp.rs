//! C13: k-shortest-paths through the real SearchAlgorithm::{KspSingleVia, Yens}. Yen's algorithm can
//! fail to return: its scenarios run in a child process with a wall-clock limit.
use crate::search::*;
use crate::util::*;
use rand::rngs::StdRng;
use rand::Rng;
use routee_compass_core::algorithm::search::direction::Direction;
use routee_compass_core::algorithm::search::edge_traversal::EdgeTraversal;
use routee_compass_core::algorithm::search::search_algorithm::SearchAlgorithm;
use routee_compass_core::model::network::VertexId;
use routee_compass_core::model::unit::Cost;
use serde_json::{json, Value};
use std::io::Read;
use std::process::{Command, Stdio};
use std::time::{Duration, Instant};

fn underlying(scn: &Value) -> SearchAlgorithm {
    match scn["alg"].as_str().unwrap_or("dijkstra") {
        "dijkstra" => SearchAlgorithm::Dijkstra,
        _ => SearchAlgorithm::AStarAlgorithm { weight_factor: Some(Cost::new(jf(&scn["wf"]) / 1000.0)) },
    }
}
/// the [algorithm] section of a configuration for this scenario; the algorithm is deserialised from it as the
/// application does (absent similarity / termination = the defaults)
fn ksp_config(scn: &Value, sim: &Value) -> Value {
    let under = match scn["alg"].as_str().unwrap_or("dijkstra") {
        "dijkstra" => json!({"type": "dijkstra"}),
        _ => json!({"type": "a*", "weight_factor": jf(&scn["wf"]) / 1000.0}),
    };
    let mut cfg = json!({"type": if scn["kalg"] == "svp" { "ksp_single_via" } else { "yens" }, "k": ju(&scn["kcfg"]), "underlying": under});
    let p = sim["p"].as_f64().unwrap_or(0.0) / 10.0;
    match sim["type"].as_str().unwrap() {
        "accept_all" => {
            if sim["explicit"].as_bool().unwrap_or(false) {
                cfg["similarity"] = json!({"type": "accept_all"});
            }
        }
        "edge_id" => cfg["similarity"] = json!({"type": "edge_id_cosine_similarity", "threshold": p}),
        _ => cfg["similarity"] = json!({"type": "distance_weighted_cosine_similarity", "threshold": p}),
    }
    match scn["term"]["type"].as_str().unwrap_or("default") {
        "exact" if scn["term"]["explicit"].as_bool().unwrap_or(false) => cfg["termination"] = json!({"type": "exact"}),
        "max" => cfg["termination"] = json!({"type": "max_iteration", "max": scn["term"]["n"]}),
        "factor" => cfg["termination"] = json!({"type": "factor", "factor": scn["term"]["n"]}),
        _ => {}
    }
    cfg
}
fn ksp_alg(scn: &Value, sim: &Value) -> Result<SearchAlgorithm, String> {
    serde_json::from_value::<SearchAlgorithm>(ksp_config(scn, sim)).map_err(|e| format!("algorithm configuration: {}", e))
}

fn routes_json(lg: &Lg, routes: &[Vec<EdgeTraversal>]) -> Value {
    Value::Array(
        routes
            .iter()
            .map(|r| {
                Value::Array(
                    r.iter()
                        .map(|et| {
                            let st: Vec<f64> = et.result_state.iter().map(|s| s.0).collect();
                            json!({"e": et.edge_id.0 + 1, "st": lg.st(&st), "acc": lg.cost(et.access_cost), "trv": lg.cost(et.traversal_cost)})
                        })
                        .collect(),
                )
            })
            .collect(),
    )
}

/// runs one KSP query in this process and returns the KResult event
fn result_event(scn: &Value) -> Value {
    let b = match build_instance(scn) {
        Ok(b) => b,
        Err(e) => return json!({"ev": "KResult", "outcome": "build_error", "msg": e, "routes": [], "n_accept_all": -1, "first_len": 0}),
    };
    let lg = Lg { b: &b, exact: base_units(scn) };
    let mut query = json!({});
    if scn["k_src"].as_str().unwrap_or("cfg") == "query" {
        query["k"] = scn["k"].clone(); // the query overrides the configured k
    }
    let (src, dst) = (VertexId(ju(&scn["src"]) - 1), VertexId(ju(&scn["dst"]) - 1));
    let alg = match ksp_alg(scn, &scn["sim"]) {
        Ok(a) => a,
        Err(e) => return json!({"ev": "KResult", "outcome": "build_error", "msg": e, "routes": [], "n_accept_all": -1, "first_len": 0}),
    };
    // edge-oriented queries: the alternatives are searched between the far ends of the two query edges and every
    // returned route carries the origin edge in front and the destination edge at the end
    let edge_mode = scn["orient"].as_str().unwrap_or("vertex") == "edge";
    let r = if edge_mode {
        alg.run_edge_oriented(routee_compass_core::model::network::EdgeId(ju(&scn["osrc"]) - 1),
                              Some(routee_compass_core::model::network::EdgeId(ju(&scn["odst"]) - 1)), &query, &Direction::Forward, &b.si)
    } else {
        alg.run_vertex_oriented(src, Some(dst), &query, &Direction::Forward, &b.si)
    };
    let (outcome, msg) = outcome_of(&r);
    let mut ev = json!({"ev": "KResult", "outcome": outcome, "msg": msg, "routes": [], "ntrees": 0, "n_accept_all": -1, "first_len": 0});
    if let Ok(res) = &r {
        ev["routes"] = routes_json(&lg, &res.routes);
        ev["ntrees"] = json!(res.trees.len());
        ev["first_len"] = json!(res.routes.first().map(|r| r.len()).unwrap_or(0));
        // the same query under the default 'accept all' setting
        if scn["sim"]["type"] != "accept_all" && scn["kalg"] == "svp" && !edge_mode {
            if let Ok(all) = ksp_alg(scn, &json!({"type": "accept_all"})).and_then(|a| a.run_vertex_oriented(src, Some(dst), &query, &Direction::Forward, &b.si).map_err(|e| e.to_string())) {
                ev["n_accept_all"] = json!(all.routes.len());
            }
        }
    }
    ev
}

fn setup_of(scn: &Value) -> Value {
    // the Setup event of the search harness (scenario + estimate values) with the KSP parameters
    let mut ev = scn.clone();
    ev["ev"] = json!("Setup");
    let nv = ju(&scn["nv"]);
    ev["h"] = json!(vec![0; nv]);
    ev["gc"] = json!(vec![0; nv]);
    ev["init_obs"] = scn["init"].clone();
    ev["units"] = norm_units(scn);
    ev["rtf"] = json!(0);
    ev["rtx"] = json!(false);
    // termination criterion: "default" is the exact criterion
    let t = scn["term"]["type"].as_str().unwrap_or("default");
    ev["term"] = json!({"type": if t == "default" { "exact" } else { t }, "n": scn["term"]["n"].as_i64().unwrap_or(0)});
    ev
}

pub fn child(path: &str) -> i32 {
    let scn: Value = serde_json::from_str(&std::fs::read_to_string(path).unwrap()).unwrap();
    println!("{}", result_event(&scn));
    0
}

fn run_in_child(scn: &Value, idx: usize, timeout: Duration) -> Value {
    let dir = scratch_dir();
    let p = dir.join(format!("ksp-scn-{}.json", idx));
    std::fs::write(&p, scn.to_string()).unwrap();
    let exe = std::env::current_exe().unwrap();
    let mut ch = Command::new(exe).arg("ksp-child").arg(&p).stdout(Stdio::piped()).stderr(Stdio::null()).spawn().expect("spawn");
    let t0 = Instant::now();
    let first_len = first_route_len(scn);
    loop {
        match ch.try_wait() {
            Ok(Some(st)) => {
                let mut so = String::new();
                let _ = ch.stdout.take().unwrap().read_to_string(&mut so);
                if st.success() {
                    if let Some(v) = so.lines().rev().find_map(|l| serde_json::from_str::<Value>(l).ok()) {
                        return v;
                    }
                }
                return json!({"ev": "KResult", "outcome": "panicked", "msg": "", "routes": [], "ntrees": 0, "n_accept_all": -1, "first_len": first_len});
            }
            Ok(None) => {
                if t0.elapsed() > timeout {
                    let _ = ch.kill();
                    let _ = ch.wait();
                    return json!({"ev": "KResult", "outcome": "timeout", "msg": "", "routes": [], "ntrees": 0, "n_accept_all": -1, "first_len": first_len});
                }
                std::thread::sleep(Duration::from_millis(3));
            }
            Err(_) => return json!({"ev": "KResult", "outcome": "aborted", "msg": "", "routes": [], "ntrees": 0, "n_accept_all": -1, "first_len": first_len}),
        }
    }
}

/// length of the shortest route (plain search), for the trigger condition of the recorded Yen findings
fn first_route_len(scn: &Value) -> usize {
    match build_instance(scn) {
        Ok(b) => underlying(scn)
            .run_vertex_oriented(VertexId(ju(&scn["src"]) - 1), Some(VertexId(ju(&scn["dst"]) - 1)), &json!({}), &Direction::Forward, &b.si)
            .ok()
            .and_then(|r| r.routes.first().map(|x| x.len()))
            .unwrap_or(0),
        Err(_) => 0,
    }
}

fn run_scenario(out: &mut Out, scn: &Value, idx: usize) {
    out.scenario(scn);
    out.event(setup_of(scn));
    let ev = if scn["kalg"] == "yens" { run_in_child(scn, idx, Duration::from_secs(5)) } else { result_event(scn) };
    out.event(ev);
}

fn gen(r: &mut StdRng, maxv: usize) -> Value {
    let mut s = gen_scenario(r, &GenOpts { max_v: maxv, focus: String::from("c13") });
    let nv = ju(&s["nv"]);
    s["dir"] = json!("fwd");
    if ju(&s["dst"]) == 0 {
        s["dst"] = json!(if ju(&s["src"]) == nv { 1 } else { ju(&s["src"]) + 1 });
    }
    s["bad"] = json!([]);
    s["force_turn_model"] = json!(false);
    s["itl"] = json!(-1);
    s["szl"] = json!(-1);
    s["rtf"] = json!(0);
    s["rtx"] = json!(false);
    s["sleep_at"] = json!(0);
    s["veh_on"] = json!(false);
    // underlying: Dijkstra, or A* with weight factor 1 (admissible on the metric networks only)
    let metric_ok = s["wf"].as_i64().unwrap_or(0) <= 1000;
    if s["alg"] == "astar" && !metric_ok {
        s["wf"] = json!(1000);
    }
    if s["alg"] == "astar" {
        s["alg"] = json!("dijkstra");      // keep optimality of the first route unconditional
        s["wf"] = json!(0);
    }
    s["wf_src"] = json!("alg");
    // denser networks: many edges get a reverse twin, so that alternatives exist
    let ne = s["E"].as_array().unwrap().len();
    for i in 0..ne {
        if r.gen_bool(0.5) {
            let e = s["E"][i].clone();
            s["E"].as_array_mut().unwrap().push(json!([e[1], e[0], e[2], e[3]]));
            let h = s["hd"][i].clone();
            s["hd"].as_array_mut().unwrap().push(h);
            s["sur"].as_array_mut().unwrap().push(json!(0));
            s["vrestr"].as_array_mut().unwrap().push(json!([]));
            if !s["cls"].as_array().unwrap().is_empty() {
                let c = s["cls"][i].clone();
                s["cls"].as_array_mut().unwrap().push(c);
            }
        }
    }
    let k = r.gen_range(1..=4);
    s["k"] = json!(k);
    let from_query = r.gen_bool(0.3);
    s["k_src"] = json!(if from_query { "query" } else { "cfg" });
    s["kcfg"] = json!(if from_query { 7 } else { k });
    s["kalg"] = json!("svp");
    let sims = [json!({"type": "accept_all"}), json!({"type": "accept_all", "explicit": true}), json!({"type": "edge_id", "p": 3}), json!({"type": "edge_id", "p": 7}),
                json!({"type": "distance", "p": 5}), json!({"type": "distance", "p": 9})];
    let mut sim = sims[r.gen_range(0..sims.len())].clone();
    if sim.get("p").is_none() {
        sim["p"] = json!(0);
    }
    s["sim"] = sim;
    // termination criterion of the alternatives loop: default, explicit exact, or the two conditional ones with values
    // below / at / above k (below: the criterion can never fire and only the final truncation keeps the count at k)
    // a fifth of the queries are edge oriented: origin and destination edges that are not adjacent (the inner search then
    // runs from the origin edge's end vertex to the destination edge's start vertex)
    s["orient"] = json!("vertex");
    s["osrc"] = json!(0);
    s["odst"] = json!(0);
    if r.gen_bool(0.2) {
        let es = s["E"].as_array().unwrap().clone();
        let pairs: Vec<(usize, usize)> = (0..es.len())
            .flat_map(|a| (0..es.len()).map(move |b| (a, b)))
            .filter(|(a, b)| a != b && es[*a][1] != es[*b][0])
            .collect();
        if !pairs.is_empty() {
            let (a, b) = pairs[r.gen_range(0..pairs.len())];
            s["orient"] = json!("edge");
            s["osrc"] = json!(a + 1);
            s["odst"] = json!(b + 1);
            s["src"] = es[a][1].clone();
            s["dst"] = es[b][0].clone();
        }
    }
    s["term"] = match r.gen_range(0..10) {
        0..=3 => json!({"type": "default", "n": 0}),
        4 => json!({"type": "exact", "explicit": true, "n": 0}),
        5..=7 => json!({"type": "max", "n": r.gen_range(0..=(k as i64 + 1))}),
        _ => json!({"type": "factor", "n": r.gen_range(0..=3)}),
    };
    s
}

pub fn main(args: &[String]) -> i32 {
    let mut out = Out::new();
    if has_flag(args, "--scenarios") {
        for (i, s) in read_scenarios().iter().enumerate() {
            guarded(&mut out, |o| run_scenario(o, s, i));
        }
    } else {
        let n = arg_usize(args, "--random", 200);
        let maxv = arg_usize(args, "--maxv", 8);
        let mut r = rng(13);
        for i in 0..n {
            let s = gen(&mut r, maxv);
            guarded(&mut out, |o| run_scenario(o, &s, i));
        }
    }
    out.flush();
    0
}
