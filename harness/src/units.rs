//! C09: every ordered unit pair of every family and every constructor unit triple, on the real code.
use crate::util::*;
use rand::Rng;
use routee_compass_core::model::unit::{
    as_f64::AsF64, Distance, DistanceUnit, Energy, EnergyRate, EnergyRateUnit, EnergyUnit, Grade, GradeUnit, Speed,
    SpeedUnit, Time, TimeUnit, Weight, WeightUnit,
};
use serde_json::{json, Value};

/// f64 -> [s, m, e] with a six-digit mantissa
pub fn sci(x: f64) -> Value {
    if x == 0.0 || !x.is_finite() {
        return json!({"s": if x.is_finite() {0} else {3}, "m": 0, "e": 0});
    }
    let a = x.abs();
    let mut e = a.log10().floor() as i32 - 5;
    let mut m = (a / 10f64.powi(e)).round() as i64;
    if m >= 1_000_000 {
        m /= 10;
        e += 1;
    }
    if m < 100_000 {
        m *= 10;
        e -= 1;
    }
    json!({"s": if x < 0.0 {-1} else {1}, "m": m, "e": e})
}

fn name<T: serde::Serialize>(u: &T) -> String {
    serde_json::to_string(u).unwrap().replace('"', "")
}

const DU: [DistanceUnit; 5] = [DistanceUnit::Meters, DistanceUnit::Kilometers, DistanceUnit::Miles, DistanceUnit::Inches, DistanceUnit::Feet];
const TU: [TimeUnit; 4] = [TimeUnit::Hours, TimeUnit::Minutes, TimeUnit::Seconds, TimeUnit::Milliseconds];
const SU: [SpeedUnit; 3] = [SpeedUnit::KilometersPerHour, SpeedUnit::MilesPerHour, SpeedUnit::MetersPerSecond];
const EU: [EnergyUnit; 3] = [EnergyUnit::GallonsGasoline, EnergyUnit::GallonsDiesel, EnergyUnit::KilowattHours];
const GU: [GradeUnit; 3] = [GradeUnit::Percent, GradeUnit::Decimal, GradeUnit::Millis];
const WU: [WeightUnit; 3] = [WeightUnit::Pounds, WeightUnit::Tons, WeightUnit::Kg];
const RU: [EnergyRateUnit; 5] = [
    EnergyRateUnit::GallonsGasolinePerMile, EnergyRateUnit::GallonsDieselPerMile, EnergyRateUnit::KilowattHoursPerMile,
    EnergyRateUnit::KilowattHoursPerKilometer, EnergyRateUnit::KilowattHoursPerMeter,
];

fn conv(fam: &str, i: usize, j: usize, x: f64) -> f64 {
    match fam {
        "distance" => DU[i].convert(&Distance::new(x), &DU[j]).as_f64(),
        "time" => TU[i].convert(&Time::new(x), &TU[j]).as_f64(),
        "speed" => SU[i].convert(&Speed::new(x), &SU[j]).as_f64(),
        "energy" => EU[i].convert(&Energy::new(x), &EU[j]).as_f64(),
        "grade" => GU[i].convert(&Grade::new(x), &GU[j]).as_f64(),
        "weight" => WU[i].convert(&Weight::new(x), &WU[j]).as_f64(),
        _ => unreachable!(),
    }
}
fn uname(fam: &str, i: usize) -> String {
    match fam {
        "distance" => name(&DU[i]),
        "time" => name(&TU[i]),
        "speed" => name(&SU[i]),
        "energy" => name(&EU[i]),
        "grade" => name(&GU[i]),
        "weight" => name(&WU[i]),
        _ => unreachable!(),
    }
}
fn count(fam: &str) -> usize {
    match fam {
        "distance" => 5,
        "time" => 4,
        _ => 3,
    }
}

pub fn main(args: &[String]) -> i32 {
    let mut out = Out::new();
    let extra = arg_usize(args, "--random", 4);
    let mut r = rng(9);
    let mut xs: Vec<f64> = vec![0.0, 1.0, -3.0, 7.0, 1000.0, 0.5, 12.5, 1e-3, 123456.7, -0.25, 1e6];
    for _ in 0..extra {
        let mag = 10f64.powi(r.gen_range(-4..=7));
        xs.push((r.gen_range(100000..=999999) as f64) * 1e-5 * mag * if r.gen_bool(0.3) { -1.0 } else { 1.0 });
    }
    for fam in ["distance", "time", "speed", "energy", "grade", "weight"] {
        for i in 0..count(fam) {
            for j in 0..count(fam) {
                // the energy family only defines gasoline<->kWh, diesel<->kWh, gasoline<->diesel (all pairs exist)
                for x in &xs {
                    let scn = json!({"fam": fam, "from": uname(fam, i), "to": uname(fam, j), "x": x});
                    out.scenario(&scn);
                    let y = conv(fam, i, j, *x);
                    let back = conv(fam, j, i, y);
                    let (a, b, k) = (x.abs() + 1.0, 2.5 * x.abs() + 0.75, 3i64);
                    out.event(json!({"ev": "Conv", "fam": fam, "from": uname(fam, i), "to": uname(fam, j),
                        "x": sci(*x), "y": sci(y), "back": sci(back), "same": y.to_bits() == x.to_bits(),
                        "yneg": sci(conv(fam, i, j, -*x)),
                        "fa": sci(conv(fam, i, j, a)), "fb": sci(conv(fam, i, j, b)), "fab": sci(conv(fam, i, j, a + b)),
                        "k": k, "fka": sci(conv(fam, i, j, (k as f64) * a))}));
                }
            }
        }
    }
    // constructors: every unit triple, positive and non-positive inputs
    let vals = [(30.0, 1500.0), (0.25, 3.0), (88.5, 0.01), (0.0, 10.0), (-5.0, 10.0), (10.0, 0.0), (10.0, -2.0)];
    for su in SU {
        for du in DU {
            for tu in TU {
                for (s, d) in vals {
                    let scn = json!({"ctor": "time", "su": name(&su), "du": name(&du), "tu": name(&tu), "speed": s, "dist": d});
                    out.scenario(&scn);
                    let rs = Time::create(&Speed::new(s), &su, &Distance::new(d), &du, &tu);
                    out.event(json!({"ev": "CTime", "speed": sci(s), "su": name(&su), "dist": sci(d), "du": name(&du), "tu": name(&tu),
                        "ok": rs.is_ok(), "res": sci(rs.map(|t| t.as_f64()).unwrap_or(0.0))}));
                    let scn = json!({"ctor": "speed", "su": name(&su), "du": name(&du), "tu": name(&tu), "time": s, "dist": d});
                    out.scenario(&scn);
                    let rs = Speed::create(&Time::new(s), &tu, &Distance::new(d), &du, &su);
                    out.event(json!({"ev": "CSpeed", "time": sci(s), "tu": name(&tu), "dist": sci(d), "du": name(&du), "su": name(&su),
                        "ok": rs.is_ok(), "res": sci(rs.map(|t| t.as_f64()).unwrap_or(0.0))}));
                }
            }
        }
    }
    for ru in RU {
        for du in DU {
            for (rate, d) in [(0.03, 12.0), (1.75, 0.4), (-0.2, 1000.0), (0.0, 5.0)] {
                let scn = json!({"ctor": "energy", "ru": name(&ru), "du": name(&du), "rate": rate, "dist": d});
                out.scenario(&scn);
                let rs = Energy::create(&EnergyRate::new(rate), &ru, &Distance::new(d), &du);
                let ok = rs.is_ok();
                let (e, eu) = rs.unwrap_or((Energy::new(0.0), EnergyUnit::KilowattHours));
                out.event(json!({"ev": "CEnergy", "rate": sci(rate), "ru": name(&ru), "dist": sci(d), "du": name(&du),
                    "ok": ok, "res": sci(e.as_f64()), "eu": name(&eu)}));
            }
        }
    }
    out.flush();
    0
}
