//! C17: grid-search expansion. Drives the real MultiSet, GridSearchPlugin::process and
//! apply_input_plugins and logs one event per emitted combination / generated query.
use crate::util::*;
use rand::Rng;
use routee_compass::app::compass::compass_app::apply_input_plugins;
use routee_compass::plugin::input::default::grid_search::plugin::GridSearchPlugin;
use routee_compass::plugin::input::input_plugin::InputPlugin;
use routee_compass_core::util::multiset::MultiSet;
use serde_json::{json, Map, Value};
use std::sync::Arc;

/// scenario {base: {..}, axes: [{key, ch: [{t: "s"|"o", v}]}]} -> query with a grid_search section
fn query_of(scn: &Value) -> Value {
    let mut q = scn["base"].as_object().cloned().unwrap_or_default();
    let mut grid = Map::new();
    for ax in scn["axes"].as_array().unwrap() {
        let choices: Vec<Value> = ax["ch"].as_array().unwrap().iter().map(|c| c["v"].clone()).collect();
        grid.insert(ax["key"].as_str().unwrap().to_string(), Value::Array(choices));
    }
    if !scn["nogrid"].as_bool().unwrap_or(false) {
        // the position of the grid section among the other fields varies with the scenario
        q.insert("grid_search".to_string(), Value::Object(grid));
    }
    Value::Object(q)
}

fn run_scenario(out: &mut Out, scn: &Value) {
    // application path: half of the queries carry a weight estimate, a label as often as a number (every expansion
    // inherits it and the load balancing stage has to cope with both)
    let mut scn_owned = scn.clone();
    if scn["mode"] == "app" {
        let na = scn["axes"].as_array().map(|a| a.len()).unwrap_or(0) + scn["base"].as_object().map(|b| b.len()).unwrap_or(0);
        match na % 4 {
            0 => scn_owned["base"]["query_weight_estimate"] = json!("long_trip"),
            1 => scn_owned["base"]["query_weight_estimate"] = json!(3),
            _ => {}
        }
    }
    let scn = &scn_owned;
    out.scenario(scn);
    let nogrid = scn["nogrid"].as_bool().unwrap_or(false);
    let axes = if nogrid { json!([]) } else { scn["axes"].clone() };
    let mode = scn["mode"].as_str().unwrap_or("plugin");
    out.event(json!({"ev": "Start", "base": scn["base"], "axes": axes, "mode": mode}));
    match mode {
        "multiset" => {
            let sets: Vec<Vec<usize>> = scn["axes"]
                .as_array()
                .unwrap()
                .iter()
                .map(|a| (0..a["ch"].as_array().unwrap().len()).collect())
                .collect();
            let ms = MultiSet::from(&sets);
            let mut n = 0;
            for combo in ms {
                out.event(json!({"ev": "Emit", "mode": mode, "combo": combo, "q": {}}));
                n += 1;
            }
            out.event(json!({"ev": "End", "n": n}));
        }
        "plugin" => {
            let mut q = query_of(scn);
            let r = GridSearchPlugin {}.process(&mut q);
            match r {
                Err(e) => out.event(json!({"ev": "Error", "msg": e.to_string()})),
                Ok(()) => {
                    // process leaves an array of queries (or the untouched query when there is no grid section)
                    let items: Vec<Value> = match &q {
                        Value::Array(a) => a.clone(),
                        other => vec![other.clone()],
                    };
                    for it in &items {
                        out.event(json!({"ev": "Emit", "mode": mode, "q": it, "combo": []}));
                    }
                    out.event(json!({"ev": "End", "n": items.len()}));
                }
            }
        }
        _ => {
            // the application path: plugin state array + flattening
            let q = query_of(scn);
            let plugins: Vec<Arc<dyn InputPlugin>> = vec![Arc::new(GridSearchPlugin {})];
            match apply_input_plugins(&q, &plugins) {
                Err(e) => out.event(json!({"ev": "Error", "msg": e.to_string()})),
                Ok(items) => {
                    // ... and the load balancing stage: what is handed to the workers, bin by bin, must still be every
                    // expansion (reported in expansion order)
                    let par = 1 + items.len() % 3;
                    let mut binned: Vec<Value> = match routee_compass::app::compass::compass_app_ops::apply_load_balancing_policy(&items, par, 1.0) {
                        Ok(bins) => bins.iter().flatten().map(|q| (*q).clone()).collect(),
                        Err(e) => {
                            out.event(json!({"ev": "Error", "msg": e.to_string()}));
                            return;
                        }
                    };
                    let mut n = 0;
                    for it in &items {
                        if let Some(p) = binned.iter().position(|b| b == it) {
                            binned.remove(p);
                            out.event(json!({"ev": "Emit", "mode": mode, "q": it, "combo": []}));
                            n += 1;
                        }
                    }
                    out.event(json!({"ev": "End", "n": n + binned.len()}));
                }
            }
        }
    }
}

fn run_batch(out: &mut Out, subs: &[Value]) {
    use routee_compass::plugin::input::input_plugin_ops::json_array_op;
    let mut arr = Value::Array(subs.iter().map(query_of).collect());
    let r = json_array_op(&mut arr, std::rc::Rc::new(|q: &mut Value| GridSearchPlugin {}.process(q)));
    let items: Vec<Value> = match (&r, &arr) {
        (Ok(()), Value::Array(a)) => a.clone(),
        _ => vec![],
    };
    for s in subs {
        out.scenario(s);
        let axes = if s["nogrid"].as_bool().unwrap_or(false) { json!([]) } else { s["axes"].clone() };
        out.event(json!({"ev": "Start", "base": s["base"], "axes": axes, "mode": "plugin"}));
        if r.is_err() {
            out.event(json!({"ev": "Error", "msg": "json_array_op failed"}));
            continue;
        }
        let mine: Vec<&Value> = items.iter().filter(|it| it.get("zz") == s["base"].get("zz")).collect();
        for it in &mine {
            out.event(json!({"ev": "Emit", "mode": "plugin", "q": it, "combo": []}));
        }
        out.event(json!({"ev": "End", "n": mine.len()}));
    }
}

fn gen(r: &mut rand::rngs::StdRng) -> Value {
    let keys = ["a", "b", "c", "d", "e", "f", "g"];
    let nbase = r.gen_range(0..=4);
    let mut base = Map::new();
    for _ in 0..nbase {
        let k = keys[r.gen_range(0..keys.len())];
        base.insert(k.to_string(), if r.gen_bool(0.5) { json!(r.gen_range(0..100)) } else { json!(format!("s{}", r.gen_range(0..9))) });
    }
    let m = r.gen_range(1..=4);
    let mut axes = vec![];
    let mut used: Vec<&str> = vec![];
    for _ in 0..m {
        let mut k = keys[r.gen_range(0..keys.len())];
        while used.contains(&k) {
            k = keys[r.gen_range(0..keys.len())];
        }
        used.push(k);
        let n = r.gen_range(1..=4);
        let mut ch = vec![];
        for _ in 0..n {
            if r.gen_bool(0.35) {
                let mut o = Map::new();
                for _ in 0..r.gen_range(1..=2) {
                    o.insert(keys[r.gen_range(0..keys.len())].to_string(), json!(r.gen_range(100..200)));
                }
                ch.push(json!({"t": "o", "v": o}));
            } else if r.gen_bool(0.5) {
                ch.push(json!({"t": "s", "v": r.gen_range(0..50)}));
            } else {
                ch.push(json!({"t": "s", "v": format!("v{}", r.gen_range(0..9))}));
            }
        }
        axes.push(json!({"key": k, "ch": ch}));
    }
    let mode = ["plugin", "app", "multiset"][r.gen_range(0..3)];
    json!({"base": base, "axes": axes, "mode": mode, "nogrid": mode != "multiset" && r.gen_bool(0.08)})
}

pub fn main(args: &[String]) -> i32 {
    let mut out = Out::new();
    if has_flag(args, "--scenarios") {
        for s in read_scenarios() {
            // TLC-exported shapes carry no mode: run them through all three paths
            if s.get("mode").is_none() {
                for mode in ["plugin", "app", "multiset"] {
                    let mut t = s.clone();
                    t["mode"] = json!(mode);
                    guarded(&mut out, |o| run_scenario(o, &t));
                }
            } else {
                run_scenario(&mut out, &s);
            }
        }
    } else {
        let n = arg_usize(args, "--random", 200);
        let mut r = rng(17);
        for _ in 0..n {
            let s = gen(&mut r);
            guarded(&mut out, |o| run_scenario(o, &s));
        }
        // mixed batches through the array helper (json_array_op + flattening): 2..5 queries, with and without a grid
        // section, in one top-level array.  Every query carries a distinct marker field, so the flattened result can be
        // split back per query; each part must be that query's expansion (a query without a grid section: itself).
        let mut r2 = rng(18);
        for _ in 0..(n / 4) {
            let subs: Vec<Value> = (0..r2.gen_range(2..=5))
                .map(|i| {
                    let mut s = gen(&mut r2);
                    s["mode"] = json!("plugin");
                    s["nogrid"] = json!(r2.gen_bool(0.4));
                    s["base"]["zz"] = json!(1000 + i);
                    s
                })
                .collect();
            guarded(&mut out, |o| run_batch(o, &subs));
        }
    }
    out.flush();
    0
}
