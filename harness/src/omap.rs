//! C11 (container part): drives the real CompactOrderedHashMap and logs every public observer
//! after every mutator call.
use crate::util::*;
use rand::Rng;
use routee_compass_core::util::compact_ordered_hash_map::CompactOrderedHashMap;
use serde_json::{json, Value};

const NK: i64 = 12; // key universe of the trace spec (Trace_OrderedMap.cfg)

type M = CompactOrderedHashMap<String, i64>;

fn key(k: i64) -> String {
    format!("k{:02}", k)
}
fn unkey(s: &str) -> i64 {
    s[1..].parse().unwrap()
}

fn observers(m: &M) -> Value {
    let keys: Vec<i64> = m.keys().map(|k| unkey(k)).collect();
    let iter: Vec<Value> = m.iter().map(|(k, v)| json!([unkey(k), v])).collect();
    let get: Vec<i64> = (1..=NK).map(|k| m.get(&key(k)).copied().unwrap_or(-1)).collect();
    let index: Vec<i64> = (1..=NK)
        .map(|k| m.get_index(&key(k)).map(|i| i as i64).unwrap_or(-1))
        .collect();
    let pair: Vec<Value> = (0..(NK + 2) as usize)
        .map(|i| match m.get_pair(i) {
            Some((k, v)) => json!([unkey(k), v]),
            None => json!([]),
        })
        .collect();
    // IndexedEntry's fields are private: read them through the Debug representation
    let tovec: Vec<Value> = m
        .to_vec()
        .into_iter()
        .map(|(k, e)| indexed(&k, &format!("{:?}", e)))
        .collect();
    let into: Vec<Value> = m
        .clone()
        .into_iter()
        .map(|(k, e)| indexed(&k, &format!("{:?}", e)))
        .collect();
    json!({"len": m.len(), "keys": keys, "iter": iter, "get": get, "index": index,
           "pair": pair, "tovec": tovec, "into": into})
}

/// "IndexedEntry { v: 5, index: 2 }" -> [key, index, v]
fn indexed(k: &str, dbg: &str) -> Value {
    let num = |tag: &str| -> i64 {
        let i = dbg.find(tag).expect("debug fmt") + tag.len();
        let rest = &dbg[i..];
        let end = rest
            .find(|c: char| !(c.is_ascii_digit() || c == '-'))
            .unwrap_or(rest.len());
        rest[..end].parse().expect("debug num")
    };
    json!([unkey(k), num("index: "), num("v: ")])
}

fn entries_of(v: &Value) -> Vec<(String, i64)> {
    v.as_array()
        .unwrap()
        .iter()
        .map(|p| (key(p[0].as_i64().unwrap()), p[1].as_i64().unwrap()))
        .collect()
}

/// scenario: {"init": "new"|"from_iter", "entries": [[k,v]..], "ops": [[k,v]..]}
fn run_scenario(out: &mut Out, scn: &Value) {
    out.scenario(scn);
    let entries = entries_of(&scn["entries"]);
    let mut m: M = match scn["init"].as_str().unwrap() {
        "new" => {
            let m = M::new(entries);
            out.event(json!({"ev": "New", "entries": scn["entries"], "obs": observers(&m)}));
            m
        }
        _ => {
            let m: M = entries.into_iter().collect();
            out.event(json!({"ev": "FromIter", "entries": scn["entries"], "obs": observers(&m)}));
            m
        }
    };
    for op in scn["ops"].as_array().unwrap() {
        let (k, v) = (op[0].as_i64().unwrap(), op[1].as_i64().unwrap());
        let ret = m.insert(key(k), v).unwrap_or(-1);
        out.event(json!({"ev": "Insert", "k": k, "v": v, "ret": ret, "obs": observers(&m)}));
    }
}

pub fn main(args: &[String]) -> i32 {
    let mut out = Out::new();
    if has_flag(args, "--stdin") {
        // histories exported by TLC (Gen_OrderedMap): [[0,n],[k,v],...]
        for h in read_scenarios() {
            let a = h.as_array().unwrap();
            let n = a[0][1].as_i64().unwrap();
            let entries: Vec<Value> = (1..=n).map(|i| json!([i, 100 + i])).collect();
            let ops: Vec<Value> = a[1..].to_vec();
            run_scenario(&mut out, &json!({"init": "new", "entries": entries, "ops": ops}));
        }
        // replay files carry the scenario object itself
    } else if has_flag(args, "--scenarios") {
        for s in read_scenarios() {
            run_scenario(&mut out, &s);
        }
    } else {
        let n = arg_usize(args, "--random", 200);
        let mut r = rng(11);
        for _ in 0..n {
            let nk = r.gen_range(1..=NK);
            let from_iter = r.gen_bool(0.5);
            let ne = r.gen_range(0..=nk);
            let mut entries: Vec<Value> = vec![];
            if from_iter {
                // from_iter accepts duplicates (later value wins, position of the first insert)
                for i in 0..ne {
                    entries.push(json!([r.gen_range(1..=nk), 100 + i]));
                }
            } else {
                let mut ks: Vec<i64> = (1..=nk).collect();
                for i in 0..ne {
                    let j = r.gen_range(0..ks.len());
                    entries.push(json!([ks.remove(j), 100 + i]));
                }
            }
            let nops = r.gen_range(0..=16);
            let ops: Vec<Value> = (0..nops).map(|i| json!([r.gen_range(1..=nk), i + 1])).collect();
            run_scenario(
                &mut out,
                &json!({"init": if from_iter {"from_iter"} else {"new"}, "entries": entries, "ops": ops}),
            );
        }
    }
    out.flush();
    0
}
