use rand::rngs::StdRng;
use rand::SeedableRng;
use serde_json::{json, Value};
use std::io::{BufRead, BufWriter, Write};

pub fn seed() -> u64 {
    std::env::var("VERIF_SEED")
        .ok()
        .and_then(|s| s.parse::<u64>().ok())
        .unwrap_or(1)
}

pub fn rng(salt: u64) -> StdRng {
    StdRng::seed_from_u64(seed().wrapping_mul(0x9E3779B97F4A7C15).wrapping_add(salt))
}

pub fn arg_val(args: &[String], name: &str) -> Option<String> {
    args.iter()
        .position(|a| a == name)
        .and_then(|i| args.get(i + 1).cloned())
}

pub fn arg_usize(args: &[String], name: &str, default: usize) -> usize {
    arg_val(args, name)
        .and_then(|s| s.parse().ok())
        .unwrap_or(default)
}

pub fn has_flag(args: &[String], name: &str) -> bool {
    args.iter().any(|a| a == name)
}

/// scenarios from stdin, one JSON value per line
pub fn read_scenarios() -> Vec<Value> {
    let stdin = std::io::stdin();
    let mut out = vec![];
    for line in stdin.lock().lines() {
        let line = line.expect("stdin");
        let t = line.trim();
        if t.is_empty() {
            continue;
        }
        out.push(serde_json::from_str::<Value>(t).expect("scenario json"));
    }
    out
}

/// event writer: every scenario starts with a meta line {"ev":"_scn","scn":i,"scenario":..}
/// (stripped by the driver, kept for replay files); each event carries "scn".
pub struct Out {
    w: BufWriter<std::io::Stdout>,
    scn: usize,
}

impl Out {
    pub fn new() -> Out {
        Out {
            w: BufWriter::with_capacity(1 << 20, std::io::stdout()),
            scn: 0,
        }
    }
    pub fn scenario(&mut self, scenario: &Value) {
        self.scn += 1;
        let v = json!({"ev": "_scn", "scn": self.scn, "scenario": scenario});
        writeln!(self.w, "{}", v).unwrap();
    }
    pub fn event(&mut self, mut ev: Value) {
        // the TLA+ Json module has no representation for null: events carry the string "null" instead
        fn denull(v: &mut Value) {
            match v {
                Value::Null => *v = Value::String(String::from("null")),
                Value::Array(a) => a.iter_mut().for_each(denull),
                Value::Object(o) => o.values_mut().for_each(denull),
                _ => {}
            }
        }
        denull(&mut ev);
        ev["scn"] = json!(self.scn);
        writeln!(self.w, "{}", ev).unwrap();
    }
    pub fn flush(&mut self) {
        self.w.flush().unwrap();
    }
}

/// f64 -> integer for the exact profile: Ok(i) when the value is integral and |x| < 2e9
pub fn exact_int(x: f64) -> Result<i64, String> {
    if x.is_finite() && x.fract() == 0.0 && x.abs() < 2.0e9 {
        Ok(x as i64)
    } else {
        Err(format!("{:?}", x))
    }
}

/// the integer x is within conversion noise of (unit profile), else an error
pub fn near_int(x: f64) -> Result<i64, String> {
    let r = x.round();
    if x.is_finite() && (x - r).abs() <= 1e-6 * r.abs().max(1.0) && r.abs() < 2.0e9 {
        Ok(r as i64)
    } else {
        Err(format!("{:?}", x))
    }
}

/// round(x * scale) as an integer, saturating at +-2e9 (non-finite values become the sentinel 2e9+1 / -2e9-1 / 2e9+2)
pub fn scaled(x: f64, scale: f64) -> i64 {
    if x.is_nan() {
        return 2_000_000_002;
    }
    let y = (x * scale).round();
    if y > 2.0e9 {
        2_000_000_001
    } else if y < -2.0e9 {
        -2_000_000_001
    } else {
        y as i64
    }
}

/// runs one scenario; a panic of the code under test is data: it becomes a `Panic` event (which no
/// specification action accepts) instead of taking the whole harness run down
pub fn guarded<F: FnOnce(&mut Out)>(out: &mut Out, f: F) {
    let r = std::panic::catch_unwind(std::panic::AssertUnwindSafe(|| f(out)));
    if let Err(e) = r {
        let msg = e.downcast_ref::<String>().cloned().or_else(|| e.downcast_ref::<&str>().map(|s| s.to_string())).unwrap_or_default();
        out.event(json!({"ev": "Panic", "msg": msg}));
    }
}
