//! C06 / C19 at the outermost public entry point: the real `command_line_runner` on a configuration file and a
//! query file (JSON document or newline-delimited with a chunk size), observed through the response file it
//! leaves behind.  Every query of the file is also run alone through CompassApp::run; the recording is judged
//! by Trace_Cli.tla (Cli.tla: argument validation, document shapes, chunking by lines, one run per chunk,
//! append-mode opening of the response file, records of a chunk before those of the next one).
use crate::app::*;
use crate::batch::{item_of, read_lines, same_json, CSV_TOML};
use crate::search::{gen_scenario, scratch_dir, GenOpts};
use crate::util::*;
use rand::rngs::StdRng;
use rand::Rng;
use routee_compass::app::cli::cli_args::CliArgs;
use routee_compass::app::cli::run::command_line_runner;
use routee_compass::app::compass::compass_app::CompassApp;
use serde_json::{json, Value};
use std::collections::HashMap;

/// the runner reports unparsable query lines (and error responses) through the `log` facade only: a counting logger
/// makes that step observable
struct CountingLogger {}
static PARSE_REPORTS: std::sync::atomic::AtomicUsize = std::sync::atomic::AtomicUsize::new(0);
static LOGGER: CountingLogger = CountingLogger {};
impl log::Log for CountingLogger {
    fn enabled(&self, m: &log::Metadata) -> bool {
        m.level() <= log::Level::Error
    }
    fn log(&self, r: &log::Record) {
        // a parse report carries the JSON parser's message ("... at line 1 column 9"); error responses of queries carry
        // search / plugin messages
        let msg = format!("{}", r.args());
        if r.level() == log::Level::Error && r.target().contains("cli") && msg.contains(" at line ") && msg.contains(" column ") {
            PARSE_REPORTS.fetch_add(1, std::sync::atomic::Ordering::SeqCst);
        }
    }
    fn flush(&self) {}
}

fn gen_cli(r: &mut StdRng, sorted_only: bool) -> Value {
    let mut net = gen_scenario(r, &GenOpts { max_v: 7, focus: String::from("c06") });
    let nv = net["nv"].as_u64().unwrap() as i64;
    net["check"] = json!("batch");
    let nd = r.gen_bool(0.7);
    let nlines = if r.gen_bool(0.1) { 0 } else { r.gen_range(1..=9) };
    // arguments: mostly well formed; the refused combinations are drawn on purpose
    let (has, n): (bool, i64) = match r.gen_range(0..10) {
        0 => (false, 0),
        1 => (true, [0, -1, -7][r.gen_range(0..3)]),
        2 => (true, (nlines as i64).max(1)),          // exactly one chunk
        3 => (true, nlines as i64 + 3),               // chunk larger than the file
        _ => (nd || r.gen_bool(0.15), r.gen_range(1..=4)),
    };
    // (newline format without a chunk size is one of the refused combinations: keep it when it was drawn on purpose)
    let drawn_without = !has && n == 0;
    let has = if nd && !drawn_without { has || r.gen_bool(0.9) } else { has };
    let n = if has { n } else { 0 };
    let shape = if nd {
        "lines"
    } else {
        ["array", "array", "array", "queries", "queries", "object", "queries_notarray", "scalar", "unparsable"][r.gen_range(0..9)]
    };
    let mut lines = vec![];
    let count = if shape == "object" { 1 } else { nlines };
    for qid in 1..=count {
        let o = r.gen_range(0..nv);
        let d = r.gen_range(0..nv);
        let bad = nd && r.gen_bool(0.2);
        if bad {
            let text = ["", "not json", "{\"qid\": 77, \"origin_vertex\": ", "{\"origin_vertex\": 0, \"destination_vertex\": 1}}"][r.gen_range(0..4)];
            lines.push(json!({"kind": "bad", "text": text}));
            continue;
        }
        let q = match r.gen_range(0..10) {
            0 => json!({"qid": qid, "origin_vertex": o}),
            1 => json!({"qid": qid, "origin_vertex": nv + 50, "destination_vertex": d}),
            2 => json!({"qid": qid, "perr": true, "origin_vertex": o, "destination_vertex": d, "grid_search": {"a": [{"grid_search": 1}]}}),
            3 | 4 => {
                let mut ds: Vec<i64> = (0..nv).collect();
                for i in (1..ds.len()).rev() {
                    ds.swap(i, r.gen_range(0..=i));
                }
                ds.truncate(r.gen_range(1..=3.min(nv as usize)));
                json!({"qid": qid, "origin_vertex": o, "grid_search": {"destination_vertex": ds}})
            }
            5 => json!({"qid": qid, "destination_vertex": d}),
            _ => json!({"qid": qid, "origin_vertex": o, "destination_vertex": d}),
        };
        lines.push(json!({"kind": "q", "qid": qid, "query": q}));
    }
    let fmt = ["none", "json", "json", "csv", "csv"][r.gen_range(0..5)];
    let flush = [1, 1, 3, 1000][r.gen_range(0..4)];
    let (par, reps) = (r.gen_range(1..=6), r.gen_range(1..=2));
    let (appok, qok) = (!r.gen_bool(0.06), !r.gen_bool(0.06));
    json!({"net": net, "par": par, "nd": nd, "has": has, "n": n, "shape": shape, "lines": lines, "fmt": fmt,
           "sorted": r.gen_bool(0.5) || sorted_only, "flush": flush, "appok": appok, "qok": qok, "reps": reps,
           "trailing_newline": r.gen_bool(0.7)})
}

fn query_file_text(scn: &Value) -> String {
    let lines = scn["lines"].as_array().unwrap();
    let qs: Vec<Value> = lines.iter().filter(|l| l["kind"] == "q").map(|l| l["query"].clone()).collect();
    match scn["shape"].as_str().unwrap() {
        "lines" => {
            let mut t = lines
                .iter()
                .map(|l| if l["kind"] == "q" { serde_json::to_string(&l["query"]).unwrap() } else { l["text"].as_str().unwrap().to_string() })
                .collect::<Vec<_>>()
                .join("\n");
            // a last empty line without terminator is no line at all for BufRead::lines
            let last_empty = lines.last().map(|l| l["kind"] == "bad" && l["text"] == "").unwrap_or(true);
            if scn["trailing_newline"].as_bool().unwrap_or(true) || last_empty {
                if !lines.is_empty() {
                    t.push('\n');
                }
            }
            t
        }
        "array" => serde_json::to_string_pretty(&Value::Array(qs)).unwrap(),
        "object" => serde_json::to_string_pretty(&qs[0]).unwrap(),
        "queries" => serde_json::to_string_pretty(&json!({"queries": qs, "comment": "queries wrapped in an object"})).unwrap(),
        "queries_notarray" => String::from("{\"queries\": {\"qid\": 1, \"origin_vertex\": 0}}"),
        "scalar" => String::from("17"),
        _ => String::from("[{\"qid\": 1, \"origin_vertex\": 0,"),
    }
}

/// a response without the members that legitimately differ from one execution / application instance to the next:
/// wall-clock stamps and durations, and the state-vector slot order (feature -> index, positional state vectors),
/// which is unspecified per instance - features are compared by name through the summaries
fn strip_volatile(v: &Value) -> Value {
    fn rec(v: &mut Value) {
        match v {
            Value::Object(o) => {
                for k in ["search_executed_time", "search_runtime", "output_plugin_executed_time", "route_runtime", "search_app_runtime", "index", "result_state"] {
                    o.remove(k);
                }
                o.values_mut().for_each(rec);
            }
            Value::Array(a) => a.iter_mut().for_each(rec),
            _ => {}
        }
    }
    let mut c = v.clone();
    rec(&mut c);
    c
}

/// cells of one CSV row: commas inside double quotes do not separate
fn split_csv(line: &str) -> Vec<String> {
    let mut cells = vec![String::new()];
    let mut quoted = false;
    for c in line.chars() {
        match c {
            '"' => {
                quoted = !quoted;
                cells.last_mut().unwrap().push(c);
            }
            ',' if !quoted => cells.push(String::new()),
            _ => cells.last_mut().unwrap().push(c),
        }
    }
    cells
}

fn run_cli_scenario(out: &mut Out, scn: &Value, tag: usize) {
    out.scenario(scn);
    let dir = scratch_dir();
    let fmt = scn["fmt"].as_str().unwrap_or("none");
    let outfile = dir.join(format!("cli-out-{}.txt", tag));
    let _ = std::fs::remove_file(&outfile);
    let policy_toml = match fmt {
        "none" => String::new(),
        "json" => format!(
            "[response_output_policy]\ntype = \"file\"\nfilename = \"{}\"\nfile_flush_rate = {}\nformat = {{ type = \"json\", newline_delimited = true }}\n",
            outfile.to_str().unwrap(), scn["flush"]
        ),
        _ => format!(
            "[response_output_policy]\ntype = \"file\"\nfilename = \"{}\"\nfile_flush_rate = {}\n{}\n",
            outfile.to_str().unwrap(), scn["flush"],
            CSV_TOML.replace("$SORTED", if scn["sorted"].as_bool().unwrap_or(false) { "true" } else { "false" })
        ),
    };
    let opts = json!({
        "parallelism": scn["par"],
        "persistence": "persist_response_in_memory",
        "response_output_policy_toml": policy_toml,
        "input_plugins_toml": "{ type = \"grid_search\" }",
    });
    let files = write_app(&scn["net"], &opts, &format!("cli{}", tag));
    let app: CompassApp = match build_app(&files) {
        Ok(a) => a,
        Err(e) => {
            out.event(json!({"ev": "BuildError", "msg": e}));
            return;
        }
    };
    let lines = scn["lines"].as_array().unwrap();
    let qmap: HashMap<i64, Value> = lines.iter().filter(|l| l["kind"] == "q").map(|l| (l["qid"].as_i64().unwrap(), l["query"].clone())).collect();
    // 1. every query of the file alone (no response file)
    let alone_cfg = json!({"parallelism": 1, "response_persistence_policy": "persist_response_in_memory", "response_output_policy": {"type": "none"}});
    let mut alone_resp: HashMap<i64, Vec<Value>> = HashMap::new();
    for l in lines.iter().filter(|l| l["kind"] == "q") {
        let r = app.run(vec![l["query"].clone()], Some(&alone_cfg));
        let items: Vec<Value> = match &r {
            Ok(rs) => rs.iter().map(|x| item_of(&qmap, x)).collect(),
            Err(_) => vec![],
        };
        if let Ok(rs) = &r {
            alone_resp.insert(l["qid"].as_i64().unwrap(), rs.clone());
        }
        out.event(json!({"ev": "Alone", "qid": l["qid"], "ok": r.is_ok(), "items": items}));
    }
    drop(app);
    // 2. the query file and the arguments
    let qpath = dir.join(format!("cli-queries-{}.json", tag));
    std::fs::write(&qpath, query_file_text(scn)).unwrap();
    let appok = scn["appok"].as_bool().unwrap_or(true);
    let qok = scn["qok"].as_bool().unwrap_or(true);
    let bad_config = dir.join(format!("cli-bad-config-{}.toml", tag));
    std::fs::write(&bad_config, "parallelism = \"many\"\n[graph]\n").unwrap();
    let args = CliArgs {
        config_file: if appok { files.config.to_str().unwrap().to_string() } else { bad_config.to_str().unwrap().to_string() },
        query_file: if qok { qpath.to_str().unwrap().to_string() } else { dir.join("no-such-query-file.json").to_str().unwrap().to_string() },
        chunksize: if scn["has"].as_bool().unwrap_or(false) { scn["n"].as_i64() } else { None },
        newline_delimited: scn["nd"].as_bool().unwrap_or(false),
    };
    // 3. the invocation, `reps` times against the same response file
    for rep in 0..scn["reps"].as_u64().unwrap_or(1) {
        let before = read_lines(&outfile);
        let pre_exists = outfile.exists();
        let header_line = if fmt == "csv" && !before.is_empty() { before[0].clone() } else { String::from("\u{0}") };
        let pre_headers = before.iter().filter(|l| **l == header_line).count();
        out.event(json!({"ev": "CliStart", "rep": rep, "nd": scn["nd"], "has": scn["has"], "n": scn["n"], "appok": appok, "qok": qok,
                         "fmt": fmt, "shape": scn["shape"], "sorted": scn["sorted"],
                         "lines": lines.iter().map(|l| if l["kind"] == "q" { json!({"kind": "q", "qid": l["qid"]}) } else { json!({"kind": "bad", "qid": 0}) }).collect::<Vec<_>>(),
                         "pre_exists": pre_exists, "pre_headers": pre_headers, "pre_recs": before.len() - pre_headers}));
        PARSE_REPORTS.store(0, std::sync::atomic::Ordering::SeqCst);
        let r = command_line_runner(&args, None, None);
        let reported = PARSE_REPORTS.load(std::sync::atomic::Ordering::SeqCst);
        let after = read_lines(&outfile);
        let pre_kept = after.len() >= before.len() && after[..before.len()] == before[..];
        let header: Vec<String> = if fmt == "csv" && !after.is_empty() { after[0].split(',').map(|s| s.to_string()).collect() } else { vec![] };
        let mut headers = 0;
        let mut nrecs = 0;
        for (i, line) in after.iter().enumerate() {
            if fmt == "csv" && *line == after[0] {
                headers += 1;
                continue;
            }
            nrecs += 1;
            if i < before.len() {
                continue;
            }
            if fmt == "json" {
                match serde_json::from_str::<Value>(line) {
                    Ok(v) => {
                        let mut it = item_of(&qmap, &v);
                        // the record must parse back to the response the query produces (the runner does not hand responses back)
                        let qid = it["qid"].as_i64().unwrap_or(-1);
                        let same = alone_resp.get(&qid).map(|rs| rs.iter().any(|x| same_json(&strip_volatile(x), &strip_volatile(&v)))).unwrap_or(false);
                        if !same && std::env::var("VERIF_DEBUG").is_ok() {
                            eprintln!("RECORD {}\nALONE  {:?}", strip_volatile(&v), alone_resp.get(&qid).map(|rs| rs.iter().map(strip_volatile).collect::<Vec<_>>()));
                        }
                        // the record parsed back to a JSON object; whether it is the query's answer is judged on the
                        // members the property compares (request, success / error, cost, final state: `sum`, against the
                        // query alone).  The full comparison with the alone run is logged but not judged: two runs of one
                        // query may legitimately differ in search effort and in the choice among equal-cost routes.
                        it["intact"] = json!(v.is_object());
                        it["same_as_alone_in_full"] = json!(same);
                        it["ev"] = json!("CliRec");
                        out.event(it);
                    }
                    Err(_) => out.event(json!({"ev": "CliRec", "qid": -1, "j": 0, "echo": false, "intact": false, "sum": ["unparsable", 0, 0, 0, 0]})),
                }
            } else {
                let cells = split_csv(line);
                let get = |name: &str| -> String {
                    header.iter().position(|h| h == name).and_then(|p| cells.get(p)).map(|s| s.to_string()).unwrap_or_default()
                };
                let num = |s: String| -> i64 { s.parse::<f64>().map(|x| scaled(x, 1.0)).unwrap_or(-1) };
                // every numeric cell, in ascending order (for rows whose cells do not follow the header, see F-C19-c)
                let mut nums: Vec<i64> = cells.iter().filter_map(|c| c.parse::<f64>().ok()).map(|x| scaled(x, 1.0)).collect();
                nums.sort();
                out.event(json!({"ev": "CliRec", "qid": get("qid").parse::<i64>().unwrap_or(-1), "j": -1, "ncells": cells.len(), "ncols": header.len(),
                                 "dist": num(get("dist")), "time": num(get("time")), "tot": num(get("tot")), "intact": cells.len() == header.len(),
                                 "nums": nums}));
            }
        }
        out.event(json!({"ev": "CliReturned", "ok": r.is_ok(), "msg": r.err().map(|e| e.to_string()).unwrap_or_default()}));
        out.event(json!({"ev": "CliEnd", "exists": outfile.exists(), "headers": headers, "nrecs": nrecs, "pre_kept": pre_kept, "reported": reported}));
    }
}

pub fn main(args: &[String]) -> i32 {
    let _ = log::set_logger(&LOGGER).map(|()| log::set_max_level(log::LevelFilter::Error));
    let mut out = Out::new();
    if has_flag(args, "--scenarios") {
        for (i, s) in read_scenarios().iter().enumerate() {
            guarded(&mut out, |o| run_cli_scenario(o, s, i % 4));
        }
    } else {
        let n = arg_usize(args, "--random", 20);
        let mut r = rng(23);
        for i in 0..n {
            let s = gen_cli(&mut r, has_flag(args, "--sorted-csv-only"));
            guarded(&mut out, |o| run_cli_scenario(o, &s, i % 4));
        }
    }
    out.flush();
    0
}
