//! C08: real ICE / BEV / PHEV vehicles inside the real EnergyTraversalModel over a real speed-table
//! time model; the prediction model is a harness table (rate = a + b*speed + c*grade in the model's
//! units) that logs what it is asked for. State after every edge is logged by feature name.
use crate::search::{build_graph, scratch_dir};
use crate::units::sci;
use crate::util::*;
use rand::rngs::StdRng;
use rand::Rng;
use routee_compass::app::compass::config::traversal_model::speed_lookup_builder::SpeedLookupBuilder;
use routee_compass_core::model::network::{EdgeId, VertexId};
use routee_compass_core::model::state::state_model::StateModel;
use routee_compass_core::model::traversal::state::state_variable::StateVar;
use routee_compass_core::model::traversal::traversal_model::TraversalModel;
use routee_compass_core::model::traversal::traversal_model_builder::TraversalModelBuilder;
use routee_compass_core::model::traversal::traversal_model_error::TraversalModelError;
use routee_compass_core::model::traversal::traversal_model_service::TraversalModelService;
use routee_compass_core::model::unit::{as_f64::AsF64, *};
use routee_compass_core::util::cache_policy::float_cache_policy::{FloatCachePolicy, FloatCachePolicyConfig};
use routee_compass_powertrain::routee::energy_model_service::EnergyModelService;
use routee_compass_powertrain::routee::prediction::model_type::ModelType;
use routee_compass_powertrain::routee::prediction::{PredictionModel, PredictionModelRecord};
use routee_compass_powertrain::routee::vehicle::default::{bev::BEV, ice::ICE, phev::PHEV};
use routee_compass_powertrain::routee::vehicle::VehicleType;
use serde_json::{json, Value};
use std::collections::HashMap;
use std::sync::{Arc, Mutex};

struct TablePM {
    a: f64,
    b: f64,
    c: f64,
    su: SpeedUnit,
    gu: GradeUnit,
    ru: EnergyRateUnit,
    which: &'static str,
    seen: Arc<Mutex<Vec<Value>>>,
}
fn uname<T: serde::Serialize>(u: &T) -> String {
    serde_json::to_string(u).unwrap().replace('"', "")
}
impl PredictionModel for TablePM {
    fn predict(&self, speed: (Speed, SpeedUnit), grade: (Grade, GradeUnit)) -> Result<(EnergyRate, EnergyRateUnit), TraversalModelError> {
        // what the model is asked for, in the units it is asked in
        self.seen.lock().unwrap().push(json!({"speed": sci(speed.0.as_f64()), "su": uname(&speed.1), "grade": sci(grade.0.as_f64()), "gu": uname(&grade.1), "which": self.which}));
        let s = speed.1.convert(&speed.0, &self.su).as_f64();
        let g = grade.1.convert(&grade.0, &self.gu).as_f64();
        Ok((EnergyRate::new(self.a + self.b * s + self.c * g), self.ru))
    }
}

fn sunit(s: &str) -> SpeedUnit {
    serde_json::from_value(json!(s)).unwrap()
}
fn gunit(s: &str) -> GradeUnit {
    serde_json::from_value(json!(s)).unwrap()
}

fn record(name: &str, pm: TablePM, ideal: f64, adj: f64, cache: Option<Vec<i32>>) -> PredictionModelRecord {
    let (su, gu, ru) = (pm.su, pm.gu, pm.ru);
    PredictionModelRecord {
        name: name.to_string(),
        prediction_model: Arc::new(pm),
        model_type: ModelType::Smartcore,
        speed_unit: su,
        grade_unit: gu,
        energy_rate_unit: ru,
        ideal_energy_rate: EnergyRate::new(ideal),
        real_world_energy_adjustment: adj,
        cache: cache.map(|p| FloatCachePolicy::from_config(FloatCachePolicyConfig { cache_size: 100, key_precisions: p }).unwrap()),
    }
}

/// after - before, computed in f64 (six digits of the accumulated values are too coarse for one edge's change)
fn delta_json(sm: &StateModel, a: &[StateVar], b: &[StateVar], vtype: &str) -> Value {
    let raw = |st: &[StateVar]| -> (f64, f64, f64) {
        let soc = if vtype == "ice" { 0.0 } else { sm.get_custom_f64(st, &String::from("battery_state")).unwrap_or(f64::NAN) };
        let ee = if vtype == "ice" { 0.0 } else { sm.get_energy(st, &String::from("energy_electric"), &EnergyUnit::KilowattHours).map(|e| e.as_f64()).unwrap_or(f64::NAN) };
        let el = match vtype {
            "ice" | "phev" => sm.get_energy(st, &String::from("energy_liquid"), &EnergyUnit::GallonsGasoline).map(|e| e.as_f64()).unwrap_or(f64::NAN),
            _ => 0.0,
        };
        (soc, ee, el)
    };
    let (x, y) = (raw(a), raw(b));
    json!({"soc": sci(y.0 - x.0), "ee": sci(y.1 - x.1), "el": sci(y.2 - x.2)})
}

fn state_json(sm: &StateModel, st: &[StateVar], vtype: &str) -> Value {
    let soc = if vtype == "ice" { 0.0 } else { sm.get_custom_f64(st, &String::from("battery_state")).unwrap_or(f64::NAN) };
    let ee = if vtype == "ice" { 0.0 } else { sm.get_energy(st, &String::from("energy_electric"), &EnergyUnit::KilowattHours).map(|e| e.as_f64()).unwrap_or(f64::NAN) };
    let el = match vtype {
        "ice" | "phev" => sm.get_energy(st, &String::from("energy_liquid"), &EnergyUnit::GallonsGasoline).map(|e| e.as_f64()).unwrap_or(f64::NAN),
        _ => 0.0,
    };
    json!({"soc": sci(soc), "ee": sci(ee), "el": sci(el)})
}

fn run_scenario(out: &mut Out, scn: &Value) {
    out.scenario(scn);
    let dir = scratch_dir();
    let v = &scn["veh"];
    let vtype = v["type"].as_str().unwrap();
    let f = |k: &str| v[k].as_f64().unwrap();
    let seen = Arc::new(Mutex::new(vec![]));
    let (msu, mgu) = (sunit(v["modelSU"].as_str().unwrap()), gunit(v["modelGU"].as_str().unwrap()));
    // rates per mile (the rate distance unit of the scenario)
    let (ru_e, ru_l) = match v["rateDU"].as_str().unwrap() {
        "miles" => (EnergyRateUnit::KilowattHoursPerMile, EnergyRateUnit::GallonsGasolinePerMile),
        "kilometers" => (EnergyRateUnit::KilowattHoursPerKilometer, EnergyRateUnit::GallonsGasolinePerMile),
        _ => (EnergyRateUnit::KilowattHoursPerMeter, EnergyRateUnit::GallonsGasolinePerMile),
    };
    // key precisions of the prediction cache: finer than the data by default; `cache_prec` = exactly the granularity of
    // the speeds and grades of the scenario (keys still lossless, neighbouring keys one unit apart)
    let cache: Option<Vec<i32>> = if scn["cache"].as_bool().unwrap_or(false) {
        Some(scn["cache_prec"].as_array().map(|a| a.iter().map(|x| x.as_i64().unwrap() as i32).collect()).unwrap_or(vec![6, 8]))
    } else {
        None
    };
    let dep = |ru: EnergyRateUnit| TablePM { a: f("a"), b: f("b"), c: f("c"), su: msu, gu: mgu, ru, which: "dep", seen: seen.clone() };
    let sus = TablePM { a: f("a2"), b: f("b2"), c: f("c2"), su: msu, gu: mgu, ru: ru_l, which: "sus", seen: seen.clone() };
    let cap = Energy::new(f("cap"));
    let vehicle: Arc<dyn VehicleType> = match vtype {
        "ice" => Arc::new(ICE::new("veh".into(), record("m", dep(ru_l), f("ideal"), f("adj"), cache.clone())).unwrap()),
        "bev" => Arc::new(BEV::new("veh".into(), record("m", dep(ru_e), f("ideal"), f("adj"), cache.clone()), cap, cap, EnergyUnit::KilowattHours)),
        _ => Arc::new(PHEV::new("veh".into(), record("s", sus, f("ideal"), f("adj"), cache.clone()), record("d", dep(ru_e), f("ideal"), f("adj"), cache.clone()), cap, cap, EnergyUnit::KilowattHours, None).unwrap()),
    };
    // speed table (time model) and grade table files
    let edges = scn["edges"].as_array().unwrap();
    let tsu = scn["units"]["time_speed"].as_str().unwrap();
    let spath = dir.join("pt-speeds.txt");
    std::fs::write(&spath, edges.iter().map(|e| format!("{}\n", e["speed"])).collect::<String>()).unwrap();
    let gpath = dir.join("pt-grades.txt");
    std::fs::write(&gpath, edges.iter().map(|e| format!("{}\n", e["grade"])).collect::<String>()).unwrap();
    let tms = SpeedLookupBuilder {}
        .build(&json!({"speed_table_input_file": spath.to_str().unwrap(), "speed_unit": tsu,
                       "distance_unit": scn["units"]["distance"], "time_unit": scn["units"]["time"]}))
        .unwrap();
    let service = EnergyModelService::new(
        tms, sunit(tsu), &Some(gpath.clone()), gunit(scn["units"]["grade"].as_str().unwrap()),
        Some(crate::search::tunit(scn["units"]["time"].as_str().unwrap())), Some(crate::search::dunit(scn["units"]["distance"].as_str().unwrap())),
        HashMap::from([(String::from("veh"), vehicle)]),
    )
    .unwrap();
    let mut query = json!({"model_name": "veh"});
    if !scn["soc0"].is_null() {
        query["starting_soc_percent"] = scn["soc0"].clone();
    }
    let soc0_ev = sci(scn["soc0"].as_f64().unwrap_or(100.0));
    let model = match service.build(&query) {
        Ok(m) => m,
        Err(e) => {
            out.event(json!({"ev": "PStart", "veh": veh_sci(v), "soc0": soc0_ev, "ok": false, "init": {"soc": sci(0.0), "ee": sci(0.0), "el": sci(0.0)}, "msg": e.to_string()}));
            return;
        }
    };
    let sm = StateModel::empty().extend(model.state_features()).unwrap();
    let mut state = sm.initial_state().unwrap();
    out.event(json!({"ev": "PStart", "veh": veh_sci(v), "soc0": soc0_ev, "ok": true, "init": state_json(&sm, &state, vtype)}));
    // a line of edges
    let e4: Vec<Value> = edges.iter().enumerate().map(|(i, e)| json!([i + 1, i + 2, e["len"], 1])).collect();
    let xy: Vec<Value> = (0..=edges.len()).map(|i| json!([i as i64 * 3, 0])).collect();
    let g = build_graph(&json!({"nv": edges.len() + 1, "E": e4, "xy": xy}));
    for (i, e) in edges.iter().enumerate() {
        let before = state_json(&sm, &state, vtype);
        let prev = state.clone();
        seen.lock().unwrap().clear();
        let tri = g.edge_triplet(&EdgeId(i)).unwrap();
        let r = model.traverse_edge(tri, &mut state, &sm);
        let s: Vec<Value> = seen.lock().unwrap().clone();
        out.event(json!({"ev": "PEdge", "ok": r.is_ok(), "speed": sci(e["speed"].as_f64().unwrap()), "su": tsu, "grade": sci(e["grade"].as_f64().unwrap()),
                         "gu": scn["units"]["grade"], "len": sci(e["len"].as_f64().unwrap()), "before": before, "after": state_json(&sm, &state, vtype), "delta": delta_json(&sm, &prev, &state, vtype), "seen": s}));
    }
    // best case between the first and the last vertex
    let before = state_json(&sm, &state, vtype);
    let mut est = state.clone();
    let (v0, v1) = (g.get_vertex(&VertexId(0)).unwrap(), g.get_vertex(&VertexId(edges.len())).unwrap());
    let _ = model.estimate_traversal((v0, v1), &mut est, &sm);
    let d = routee_compass_core::util::geo::haversine::coord_distance_meters(&v0.coordinate.0, &v1.coordinate.0).unwrap().as_f64();
    out.event(json!({"ev": "PEst", "before": before, "after": state_json(&sm, &est, vtype), "delta": delta_json(&sm, &state, &est, vtype), "dist": sci(d), "du": "meters"}));
}

fn veh_sci(v: &Value) -> Value {
    let mut o = v.clone();
    for k in ["cap", "adj", "ideal", "a", "b", "c", "a2", "b2", "c2"] {
        o[k] = sci(v[k].as_f64().unwrap());
    }
    o
}

fn gen(r: &mut StdRng) -> Value {
    let vtype = ["ice", "bev", "phev"][r.gen_range(0..3)];
    let cap = [4.0, 8.0, 16.0, 60.0][r.gen_range(0..4)];
    let msu = ["miles_per_hour", "kilometers_per_hour", "meters_per_second"][r.gen_range(0..3)];
    let mgu = ["decimal", "percent", "millis"][r.gen_range(0..3)];
    let gscale = match mgu { "decimal" => 1.0, "percent" => 0.01, _ => 0.001 };
    let sscale = match msu { "miles_per_hour" => 1.0, "kilometers_per_hour" => 0.62, _ => 2.2 };
    let adj = [1.0, 1.25, 1.3958][r.gen_range(0..3)];
    // gasoline rates only exist per mile
    let rate_du = if vtype == "ice" { "miles" } else { ["miles", "miles", "kilometers", "meters"][r.gen_range(0..4)] };
    let veh = json!({"type": vtype, "cap": cap, "adj": adj, "ideal": r.gen_range(0.05..0.4),
                     "rateDU": rate_du, "rateDU2": "miles", "modelSU": msu, "modelGU": mgu,
                     "a": r.gen_range(0.1..0.5), "b": r.gen_range(0.0..0.004) * sscale, "c": r.gen_range(1.0..6.0) * gscale,
                     "a2": r.gen_range(0.01..0.05), "b2": r.gen_range(0.0..0.0004) * sscale, "c2": r.gen_range(0.1..0.4) * gscale});
    let tsu = ["kilometers_per_hour", "miles_per_hour", "meters_per_second"][r.gen_range(0..3)];
    let gu = ["decimal", "percent", "millis"][r.gen_range(0..3)];
    let gmul = match gu { "decimal" => 1.0, "percent" => 100.0, _ => 1000.0 };
    let n = r.gen_range(1..=8);
    let mut edges: Vec<Value> = vec![];
    for i in 0..n {
        let speed: f64 = (r.gen_range(5.0..70.0f64) * 100.0).round() / 100.0;
        // steep downhill now and then: negative energy (regeneration)
        let grade: f64 = if r.gen_bool(0.25) { -r.gen_range(0.08..0.2) } else { r.gen_range(-0.05..0.1) };
        let mut e = json!({"len": r.gen_range(200..60000), "speed": speed, "grade": ((grade * gmul) * 10000.0f64).round() / 10000.0});
        // roads repeat their speed / grade class: the same prediction is requested again (cache hits when a cache is configured)
        if i > 0 && r.gen_bool(0.4) {
            let j = r.gen_range(0..i);
            e["speed"] = edges[j]["speed"].clone();
            // ... sometimes the same slope in the other direction
            e["grade"] = if r.gen_bool(0.35) { json!(-edges[j]["grade"].as_f64().unwrap()) } else { edges[j]["grade"].clone() };
        }
        edges.push(e);
    }
    let soc0 = match r.gen_range(0..10) {
        0 => json!(-1.0),
        1 => json!(100.5),
        2 => json!(0.0),
        3 => json!(100.0),
        4 => Value::Null,
        _ => json!((r.gen_range(0.5..99.5f64) * 100.0).round() / 100.0),
    };
    let soc0 = if vtype == "phev" && soc0.is_null() { json!(37.5) } else { soc0 };
    let du = ["meters", "miles", "kilometers"][r.gen_range(0..3)];
    let tu = ["seconds", "hours", "minutes"][r.gen_range(0..3)];
    let cache = r.gen_bool(0.4);
    let mut scn = json!({"veh": veh, "soc0": soc0, "edges": edges, "cache": cache,
           "units": {"time_speed": tsu, "grade": gu, "distance": du, "time": tu}});
    // half of the cached scenarios: keys exactly as fine as the data (grades in steps of 1 % slope, speeds in hundredths),
    // with a flat edge and a gentle downhill edge one key apart at the same speed
    if cache && n >= 2 && n % 2 == 0 {
        let (granule, pg) = match gu { "decimal" => (0.01, 2), "percent" => (1.0, 0), _ => (10.0, -1) };
        let es = scn["edges"].as_array_mut().unwrap();
        for e in es.iter_mut() {
            let g = e["grade"].as_f64().unwrap();
            e["grade"] = json!(((g / granule).round() * granule * 10000.0f64).round() / 10000.0);
        }
        let s0 = es[0]["speed"].clone();
        es[0]["grade"] = json!(0.0);
        es[1]["speed"] = s0;
        es[1]["grade"] = json!(-granule);
        scn["cache_prec"] = json!([2, pg]);
    }
    scn
}

pub fn main(args: &[String]) -> i32 {
    let mut out = Out::new();
    if has_flag(args, "--scenarios") {
        for s in read_scenarios() {
            guarded(&mut out, |o| run_scenario(o, &s));
        }
    } else {
        let n = arg_usize(args, "--random", 300);
        let mut r = rng(8);
        for _ in 0..n {
            let s = gen(&mut r);
            guarded(&mut out, |o| run_scenario(o, &s));
        }
    }
    out.flush();
    0
}
