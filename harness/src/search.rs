#![allow(unused_imports, dead_code)]
//! Search family (C01-C05, C10): builds a real SearchInstance from a scenario, wraps the real
//! traversal / access / frontier models in recording decorators, runs the real search algorithm
//! and turns the recorded call stream into one `Relax` event per incident edge plus `Setup`/`End`.
use crate::util::*;
use rand::rngs::StdRng;
use rand::Rng;
use routee_compass::app::compass::config::access_model::turn_delay_access_model_builder::TurnDelayAccessModelBuilder;
use routee_compass::app::compass::config::frontier_model::{
    combined::combined_builder::CombinedBuilder, road_class::road_class_builder::RoadClassBuilder,
    turn_restrictions::turn_restriction_builder::TurnRestrictionBuilder,
    vehicle_restrictions::vehicle_restriction_builder::VehicleRestrictionBuilder,
};
use routee_compass::app::compass::config::cost_model::cost_model_builder::CostModelBuilder;
use routee_compass::app::compass::config::traversal_model::{
    distance_traversal_builder::DistanceTraversalBuilder, speed_lookup_builder::SpeedLookupBuilder,
};
use routee_compass_core::model::access::access_model_builder::AccessModelBuilder;
use routee_compass_core::model::frontier::frontier_model_builder::FrontierModelBuilder;
use routee_compass_core::model::traversal::traversal_model_builder::TraversalModelBuilder;
use std::rc::Rc;
use routee_compass_core::algorithm::search::{
    direction::Direction, edge_traversal::EdgeTraversal, search_algorithm::SearchAlgorithm,
    search_algorithm_result::SearchAlgorithmResult, search_error::SearchError,
    search_instance::SearchInstance, search_tree_branch::SearchTreeBranch,
};
use routee_compass_core::model::{
    access::{
        access_model::AccessModel,
        access_model_error::AccessModelError,
        default::{
            no_access_model::NoAccessModel,
            turn_delays::{
                edge_heading::EdgeHeading, turn::Turn, turn_delay_access_model::TurnDelayAccessModel,
                turn_delay_access_model_engine::TurnDelayAccessModelEngine, turn_delay_model::TurnDelayModel,
            },
        },
    },
    cost::{
        cost_aggregation::CostAggregation, cost_model::CostModel, network::network_cost_rate::NetworkCostRate,
        vehicle::vehicle_cost_rate::VehicleCostRate,
    },
    frontier::{
        default::no_restriction::NoRestriction, frontier_model::FrontierModel,
        frontier_model_error::FrontierModelError, frontier_model_service::FrontierModelService,
    },
    network::{graph::Graph, Edge, EdgeId, Vertex, VertexId},
    state::{state_feature::StateFeature, state_model::StateModel},
    termination::termination_model::TerminationModel,
    traversal::{
        default::{
            distance_traversal_model::DistanceTraversalModel, speed_traversal_engine::SpeedTraversalEngine,
            speed_traversal_model::SpeedTraversalModel,
        },
        state::state_variable::StateVar,
        traversal_model::TraversalModel,
        traversal_model_error::TraversalModelError,
    },
    unit::{as_f64::AsF64, Cost, Distance, DistanceUnit, Speed, SpeedUnit, Time, TimeUnit},
};
use routee_compass_core::util::compact_ordered_hash_map::CompactOrderedHashMap;
use routee_compass_core::util::geo::haversine;
use serde_json::{json, Value};
use std::collections::{HashMap, HashSet};
use std::sync::{Arc, Mutex};

// ---------------------------------------------------------------------------------------------
// recording decorators
#[derive(Clone, Debug)]
pub enum Call {
    F { e: usize, prev: Option<usize>, state: Vec<f64>, ok: bool },
    A { e1: usize, e2: usize, after: Vec<f64> },
    T { e: usize, before: Vec<f64>, after: Vec<f64>, slept: bool },
    E { src: usize, dst: usize },
}

#[derive(Default)]
pub struct Recorder {
    pub calls: Mutex<Vec<Call>>,
    /// (n, ms): the n-th traversal call (1-based, counted from the last take()) sleeps ms milliseconds - used to
    /// run a search's time budget out at a known point
    pub sleep: Mutex<(usize, u64)>,
    pub ntrav: Mutex<usize>,
}
impl Recorder {
    fn push(&self, c: Call) {
        self.calls.lock().unwrap().push(c);
    }
    pub fn take(&self) -> Vec<Call> {
        *self.ntrav.lock().unwrap() = 0;
        std::mem::take(&mut *self.calls.lock().unwrap())
    }
}

fn raw(state: &[StateVar]) -> Vec<f64> {
    state.iter().map(|s| s.0).collect()
}

pub struct RecT {
    pub inner: Arc<dyn TraversalModel>,
    pub rec: Arc<Recorder>,
    /// scripted heuristic (metres added to "distance" by estimate_traversal), indexed by vertex
    pub script: Option<Vec<f64>>,
}
impl TraversalModel for RecT {
    fn state_features(&self) -> Vec<(String, StateFeature)> {
        self.inner.state_features()
    }
    fn traverse_edge(
        &self,
        trajectory: (&Vertex, &Edge, &Vertex),
        state: &mut Vec<StateVar>,
        state_model: &StateModel,
    ) -> Result<(), TraversalModelError> {
        let before = raw(state);
        let r = self.inner.traverse_edge(trajectory, state, state_model);
        let slept = {
            let mut n = self.rec.ntrav.lock().unwrap();
            *n += 1;
            let (at, ms) = *self.rec.sleep.lock().unwrap();
            if at > 0 && *n == at {
                std::thread::sleep(std::time::Duration::from_millis(ms));
                true
            } else {
                false
            }
        };
        self.rec.push(Call::T { e: trajectory.1.edge_id.0, before, after: raw(state), slept });
        r
    }
    fn estimate_traversal(
        &self,
        od: (&Vertex, &Vertex),
        state: &mut Vec<StateVar>,
        state_model: &StateModel,
    ) -> Result<(), TraversalModelError> {
        self.rec.push(Call::E { src: od.0.vertex_id.0, dst: od.1.vertex_id.0 });
        match &self.script {
            None => self.inner.estimate_traversal(od, state, state_model),
            Some(h) => {
                let d = Distance::new(h[od.0.vertex_id.0]);
                state_model
                    .add_distance(state, &String::from("distance"), &d, &DistanceUnit::Meters)
                    .map_err(|e| TraversalModelError::TraversalModelFailure(e.to_string()))
            }
        }
    }
}

pub struct RecA {
    pub inner: Arc<dyn AccessModel>,
    pub rec: Arc<Recorder>,
}
impl AccessModel for RecA {
    fn state_features(&self) -> Vec<(String, StateFeature)> {
        self.inner.state_features()
    }
    fn access_edge(
        &self,
        traversal: (&Vertex, &Edge, &Vertex, &Edge, &Vertex),
        state: &mut Vec<StateVar>,
        state_model: &StateModel,
    ) -> Result<(), AccessModelError> {
        let r = self.inner.access_edge(traversal, state, state_model);
        self.rec.push(Call::A { e1: traversal.1.edge_id.0, e2: traversal.3.edge_id.0, after: raw(state) });
        r
    }
}

pub struct RecF {
    pub inner: Arc<dyn FrontierModel>,
    pub rec: Arc<Recorder>,
}
impl FrontierModel for RecF {
    fn valid_frontier(
        &self,
        edge: &Edge,
        state: &[StateVar],
        previous_edge: Option<&Edge>,
        state_model: &StateModel,
    ) -> Result<bool, FrontierModelError> {
        let r = self.inner.valid_frontier(edge, state, previous_edge, state_model)?;
        self.rec.push(Call::F { e: edge.edge_id.0, prev: previous_edge.map(|p| p.edge_id.0), state: raw(state), ok: r });
        Ok(r)
    }
}

// ---------------------------------------------------------------------------------------------
// scenario -> real objects
pub fn ju(v: &Value) -> usize {
    v.as_u64().unwrap_or_else(|| panic!("expected unsigned int, got {}", v)) as usize
}
pub fn ji(v: &Value) -> i64 {
    v.as_i64().unwrap_or_else(|| panic!("expected int, got {}", v))
}
pub fn jf(v: &Value) -> f64 {
    v.as_f64().unwrap_or_else(|| panic!("expected number, got {}", v))
}

pub fn dunit(s: &str) -> DistanceUnit {
    match s {
        "meters" => DistanceUnit::Meters,
        "kilometers" => DistanceUnit::Kilometers,
        "miles" => DistanceUnit::Miles,
        "inches" => DistanceUnit::Inches,
        "feet" => DistanceUnit::Feet,
        _ => panic!("distance unit {}", s),
    }
}
pub fn tunit(s: &str) -> TimeUnit {
    match s {
        "hours" => TimeUnit::Hours,
        "minutes" => TimeUnit::Minutes,
        "seconds" => TimeUnit::Seconds,
        "milliseconds" => TimeUnit::Milliseconds,
        _ => panic!("time unit {}", s),
    }
}
pub fn sunit(s: &str) -> SpeedUnit {
    match s {
        "kph" => SpeedUnit::KilometersPerHour,
        "mph" => SpeedUnit::MilesPerHour,
        "mps" => SpeedUnit::MetersPerSecond,
        _ => panic!("speed unit {}", s),
    }
}

/// builds the Graph the way the loader does (adjacency filled in edge order)
pub fn build_graph(scn: &Value) -> Graph {
    let nv = ju(&scn["nv"]);
    let xy = scn["xy"].as_array();
    let vertices: Vec<Vertex> = (0..nv)
        .map(|i| match xy {
            // coordinates are given in milli-degrees
            Some(a) => Vertex::new(i, (ji(&a[i][0]) as f64 / 1000.0) as f32, (ji(&a[i][1]) as f64 / 1000.0) as f32),
            None => Vertex::new(i, 0.0, 0.0),
        })
        .collect();
    let mut adj: Vec<CompactOrderedHashMap<EdgeId, VertexId>> = vec![CompactOrderedHashMap::empty(); nv];
    let mut rev: Vec<CompactOrderedHashMap<EdgeId, VertexId>> = vec![CompactOrderedHashMap::empty(); nv];
    let mut edges = vec![];
    for (i, e) in scn["E"].as_array().unwrap().iter().enumerate() {
        let (s, d, len) = (ju(&e[0]) - 1, ju(&e[1]) - 1, jf(&e[2]));
        edges.push(Edge::new(i, s, d, len));
        adj[s].insert(EdgeId(i), VertexId(d));
        rev[d].insert(EdgeId(i), VertexId(s));
    }
    Graph {
        adj: adj.into_boxed_slice(),
        rev: rev.into_boxed_slice(),
        edges: edges.into_boxed_slice(),
        vertices: vertices.into_boxed_slice(),
    }
}

fn vrate(f: i64) -> VehicleCostRate {
    match f {
        0 => VehicleCostRate::Zero,
        1 => VehicleCostRate::Raw,
        k => VehicleCostRate::Factor { factor: k as f64 },
    }
}

/// per-process scratch directory for the small configuration files the builders read (cwd = the check's work dir)
pub fn scratch_dir() -> std::path::PathBuf {
    let d = std::env::current_dir().unwrap().join(format!("vh-files-{}", std::process::id()));
    std::fs::create_dir_all(&d).unwrap();
    d
}

/// time budget of the scenarios with a runtime limit that is not exhausted from the start; a traversal call that sleeps
/// more than twice as long certainly uses it up
pub const RT_BUDGET_MS: u64 = 40;

pub struct Built {
    pub si: SearchInstance,
    pub rec: Arc<Recorder>,
    pub dunit: DistanceUnit,
    pub tunit: TimeUnit,
}

pub fn turn_table(delay: &[f64]) -> HashMap<Turn, Time> {
    // order of the spec: 1 no_turn 2 slight_right 3 slight_left 4 right 5 left 6 sharp_right 7 sharp_left 8 u_turn
    let turns = [
        Turn::NoTurn, Turn::SlightRight, Turn::SlightLeft, Turn::Right, Turn::Left, Turn::SharpRight,
        Turn::SharpLeft, Turn::UTurn,
    ];
    turns.into_iter().zip(delay.iter()).map(|(t, d)| (t, Time::new(*d))).collect()
}

/// the units record with every field present: distance / time / speed / delay are the units the traversal and
/// access models are configured with, state_distance / state_time the units the state features are declared in
pub fn norm_units(scn: &Value) -> Value {
    let u = &scn["units"];
    let g = |k: &str, d: &str| u[k].as_str().unwrap_or(d).to_string();
    let (d, t) = (g("distance", "meters"), g("time", "seconds"));
    json!({"distance": d, "time": t, "speed": g("speed", "mps"), "delay": g("delay", "seconds"),
           "state_distance": g("state_distance", &d), "state_time": g("state_time", &t)})
}

/// offsets of the vehicle rates (rate(x) = factor * x + offset, in the feature's own unit): given by the scenario, or
/// drawn from its shape for a quarter of the scenarios that take weights and rates from the configuration and use
/// the model's own estimate; the time offset only where the model keeps a time feature
pub fn rate_offsets(scn: &Value) -> (i64, i64) {
    if let (Some(d), Some(t)) = (scn.get("od").and_then(|x| x.as_i64()), scn.get("ot").and_then(|x| x.as_i64())) {
        return (d, t);
    }
    let ne = scn["E"].as_array().map(|a| a.len()).unwrap_or(0);
    let nv = scn["nv"].as_u64().unwrap_or(0) as usize;
    let eligible = scn["cost_src"].as_str().unwrap_or("config") != "query"
        && scn["est_mode"].as_str().unwrap_or("real") == "real"
        && scn["profile"].as_str().unwrap_or("exact") == "exact"
        && (ne + nv) % 4 == 1;
    if !eligible {
        return (0, 0);
    }
    let od = 1 + (ne % 3) as i64;
    let ot = if scn["model"].as_str().unwrap_or("speed") == "distance" { 0 } else { (nv % 3) as i64 };
    (od, ot)
}

pub fn build_instance(scn: &Value) -> Result<Built, String> {
    let graph = Arc::new(build_graph(scn));
    let ne = graph.n_edges();
    let nu = norm_units(scn);
    let du = dunit(nu["distance"].as_str().unwrap());
    let tu = tunit(nu["time"].as_str().unwrap());
    let su = sunit(nu["speed"].as_str().unwrap());
    let sdu = dunit(nu["state_distance"].as_str().unwrap());
    let stu = tunit(nu["state_time"].as_str().unwrap());
    let init = scn["init"].as_array().unwrap();
    // initial values are given in metres / seconds and declared in the units of the state features
    let d0 = DistanceUnit::Meters.convert(&Distance::new(jf(&init[0])), &sdu);
    let t0 = TimeUnit::Seconds.convert(&Time::new(jf(&init[1])), &stu);
    let state_model = Arc::new(StateModel::new(vec![
        (String::from("distance"), StateFeature::Distance { distance_unit: sdu, initial: d0 }),
        (String::from("time"), StateFeature::Time { time_unit: stu, initial: t0 }),
    ]));
    let rec = Arc::new(Recorder::default());

    // traversal model: built by the application's builders from a configuration object and files
    let dir = scratch_dir();
    let uname = |v: &Value, d: &str| -> String { v.as_str().unwrap_or(d).to_string() };
    let units = &nu;
    let model = scn["model"].as_str().unwrap_or("speed");
    let inner_t: Arc<dyn TraversalModel> = if model == "distance" {
        let svc = DistanceTraversalBuilder {}
            .build(&json!({"distance_unit": uname(&units["distance"], "meters")}))
            .map_err(|e| format!("distance builder: {}", e))?;
        svc.build(&json!({})).map_err(|e| format!("distance service: {}", e))?
    } else {
        // speeds are given in m/s and written to the table in the table's unit
        let path = dir.join("speeds.txt");
        let mut txt = String::new();
        for e in scn["E"].as_array().unwrap() {
            let v = SpeedUnit::MetersPerSecond.convert(&Speed::new(jf(&e[3])), &su);
            txt.push_str(&format!("{}\n", v.as_f64()));
        }
        std::fs::write(&path, txt).unwrap();
        let su_name = match su {
            SpeedUnit::MetersPerSecond => "meters_per_second",
            SpeedUnit::KilometersPerHour => "kilometers_per_hour",
            SpeedUnit::MilesPerHour => "miles_per_hour",
        };
        let svc = SpeedLookupBuilder {}
            .build(&json!({"speed_table_input_file": path.to_str().unwrap(), "speed_unit": su_name,
                           "distance_unit": uname(&units["distance"], "meters"),
                           "time_unit": uname(&units["time"], "seconds")}))
            .map_err(|e| format!("speed builder: {}", e))?;
        svc.build(&json!({})).map_err(|e| format!("speed service: {}", e))?
    };
    let script = if scn["est_mode"].as_str().unwrap_or("real") == "script" {
        scn["hscript"].as_array().map(|a| a.iter().map(jf).collect::<Vec<f64>>())
    } else {
        None
    };
    let traversal_model: Arc<dyn TraversalModel> = Arc::new(RecT { inner: inner_t, rec: rec.clone(), script });

    // access model
    let inner_a: Arc<dyn AccessModel> = if scn["acc"].as_str().unwrap_or("none") == "turn" {
        let path = dir.join("headings.csv");
        let mut txt = String::from("arrival_heading,departure_heading\n");
        for h in scn["hd"].as_array().unwrap() {
            // the second heading is optional: a straight edge may leave it out
            if ji(&h[0]) == ji(&h[1]) && scn["omit_zero"].as_bool().unwrap_or(false) {
                txt.push_str(&format!("{},\n", ji(&h[0])));
            } else {
                txt.push_str(&format!("{},{}\n", ji(&h[0]), ji(&h[1])));
            }
        }
        std::fs::write(&path, txt).unwrap();
        let dtu_name = uname(&units["delay"], "seconds");
        let dtu = tunit(&dtu_name);
        let names = ["no_turn", "slight_right", "slight_left", "right", "left", "sharp_right", "sharp_left", "u_turn"];
        let mut table = serde_json::Map::new();
        for (i, d) in scn["delay"].as_array().unwrap().iter().enumerate() {
            table.insert(names[i].to_string(), json!(TimeUnit::Seconds.convert(&Time::new(jf(d)), &dtu).as_f64()));
        }
        let one = json!({"type": "turn_delay", "edge_heading_input_file": path.to_str().unwrap(),
                         "turn_delay_model": {"type": "tabular_discrete", "table": table, "time_unit": dtu_name}});
        if scn["split_models"].as_bool().unwrap_or(false) {
            // the same delays spread over two turn-delay models inside a combined access model (each adds its share)
            let (mut ta, mut tb) = (serde_json::Map::new(), serde_json::Map::new());
            for (k, v) in one["turn_delay_model"]["table"].as_object().unwrap() {
                let d = v.as_f64().unwrap();
                let a = (d / 2.0).floor();
                ta.insert(k.clone(), json!(a));
                tb.insert(k.clone(), json!(d - a));
            }
            let (mut ma, mut mb) = (one.clone(), one.clone());
            ma["turn_delay_model"]["table"] = Value::Object(ta);
            mb["turn_delay_model"]["table"] = Value::Object(tb);
            let reg: HashMap<String, Rc<dyn AccessModelBuilder>> = HashMap::from([(String::from("turn_delay"), Rc::new(TurnDelayAccessModelBuilder {}) as Rc<dyn AccessModelBuilder>)]);
            let svc = routee_compass::app::compass::config::access_model::combined_access_model_builder::CombinedAccessModelBuilder { builders: reg }
                .build(&json!({"type": "combined", "access_models": [ma, mb]}))
                .map_err(|e| format!("combined access builder: {}", e))?;
            svc.build(&json!({})).map_err(|e| format!("combined access service: {}", e))?
        } else {
            let svc = TurnDelayAccessModelBuilder {}.build(&one).map_err(|e| format!("turn delay builder: {}", e))?;
            svc.build(&json!({})).map_err(|e| format!("turn delay service: {}", e))?
        }
    } else {
        Arc::new(NoAccessModel {})
    };
    let access_model: Arc<dyn AccessModel> = Arc::new(RecA { inner: inner_a, rec: rec.clone() });

    // cost model: through the application's CostModelBuilder / CostModelService, with the weights and rates in force
    // coming either from the configuration or from the query (the configuration then holds decoy values)
    let from_query = scn["cost_src"].as_str().unwrap_or("config") == "query";
    let rate_json = |f: i64| -> Value {
        match f {
            0 => json!({"type": "zero"}),
            1 => json!({"type": "raw"}),
            k => json!({"type": "factor", "factor": k as f64}),
        }
    };
    let mut real_weights = json!({"distance": jf(&scn["wd"]), "time": jf(&scn["wt"])});
    let mut real_rates = json!({"distance": rate_json(ji(&scn["rd"])), "time": rate_json(ji(&scn["rt"]))});
    // a feature that does not count may be left out of the mappings altogether instead of being weighted zero
    if scn["omit_zero"].as_bool().unwrap_or(false) {
        for (k, w) in [("distance", "wd"), ("time", "wt")] {
            if jf(&scn[w]) == 0.0 {
                real_weights.as_object_mut().unwrap().remove(k);
                real_rates.as_object_mut().unwrap().remove(k);
            }
        }
    }
    let mut cost_cfg = json!({"cost_aggregation": "sum"});
    let mut cost_query = json!({});
    if from_query {
        cost_cfg["weights"] = json!({"distance": 7.0, "time": 0.25});
        cost_cfg["vehicle_rates"] = json!({"distance": {"type": "factor", "factor": 9.0}, "time": {"type": "zero"}});
        cost_query["weights"] = real_weights;
        cost_query["vehicle_rates"] = real_rates;
    } else {
        cost_cfg["weights"] = real_weights;
        cost_cfg["vehicle_rates"] = real_rates;
    }
    let mut cost_service = CostModelBuilder {}.build(&cost_cfg).map_err(|e| format!("cost builder: {}", e))?;
    // every third network: the same rates written as chains (VehicleCostRate::Combined applies its members one after
    // the other: raw then factor k = factor k, factor then zero = zero) - a form only library callers can build
    if scn.get("rate_chain").and_then(|b| b.as_bool()).unwrap_or((ne + scn["nv"].as_u64().unwrap_or(0) as usize) % 3 == 0) {
        let chained: HashMap<String, VehicleCostRate> = cost_service
            .vehicle_rates
            .iter()
            .map(|(k, v)| {
                let c = match v {
                    VehicleCostRate::Zero => VehicleCostRate::Combined(vec![VehicleCostRate::Factor { factor: 5.0 }, VehicleCostRate::Zero]),
                    VehicleCostRate::Raw => VehicleCostRate::Combined(vec![VehicleCostRate::Raw, VehicleCostRate::Raw]),
                    other => VehicleCostRate::Combined(vec![VehicleCostRate::Raw, other.clone()]),
                };
                (k.clone(), c)
            })
            .collect();
        cost_service.vehicle_rates = Arc::new(chained);
    }
    // rates with a constant term: an offset after the factor (the plain `offset` kind where the factor is 1)
    let (od, ot) = rate_offsets(scn);
    if od != 0 || ot != 0 {
        let with_off: HashMap<String, VehicleCostRate> = cost_service
            .vehicle_rates
            .iter()
            .map(|(k, v)| {
                let off = if k == "distance" { od } else if k == "time" { ot } else { 0 };
                let c = match v {
                    _ if off == 0 => v.clone(),
                    VehicleCostRate::Raw => VehicleCostRate::Offset { offset: off as f64 },
                    other => VehicleCostRate::Combined(vec![other.clone(), VehicleCostRate::Offset { offset: off as f64 }]),
                };
                (k.clone(), c)
            })
            .collect();
        cost_service.vehicle_rates = Arc::new(with_off);
    }
    let sur = scn["sur"].as_array().unwrap();
    if sur.iter().any(|s| ji(s) != 0) {
        let lookup: HashMap<EdgeId, Cost> = sur
            .iter()
            .enumerate()
            .filter(|(_, s)| ji(s) != 0)
            .map(|(i, s)| (EdgeId(i), Cost::new(jf(s))))
            .collect();
        cost_service.network_rates = Arc::new(HashMap::from([(String::from("distance"), NetworkCostRate::EdgeLookup { lookup })]));
    }
    let cost_model = cost_service.build(&cost_query, state_model.clone()).map_err(|e| format!("cost model: {}", e))?;

    // frontier model: road classes (per-query allowed set), restricted turns, combination - all through the builders
    let mut models: Vec<Value> = vec![];
    let mut query = json!({});
    if let Some(cls) = scn["cls"].as_array().filter(|c| !c.is_empty()) {
        assert_eq!(cls.len(), ne);
        let path = dir.join("road_classes.txt");
        std::fs::write(&path, cls.iter().map(|c| format!("{}\n", ju(c))).collect::<String>()).unwrap();
        let mut m = json!({"type": "road_class", "road_class_input_file": path.to_str().unwrap()});
        if let Some(mp) = scn.get("clsmap").filter(|m| m.is_object()) {
            m["road_class_parser"] = json!({ "mapping": mp });
        }
        models.push(m);
        if let Some(a) = scn.get("allowed_query") {
            if !a.is_null() {
                query["road_classes"] = a.clone();
            }
        }
    }
    if let Some(bad) = scn["bad"].as_array() {
        if !bad.is_empty() || scn["force_turn_model"].as_bool().unwrap_or(false) {
            // one table, or (split_models) the same restrictions spread over two tables: two models of the same type in
            // the combination, each of which must permit the turn
            let parts = if scn["split_models"].as_bool().unwrap_or(false) { 2 } else { 1 };
            for part in 0..parts {
                let path = dir.join(format!("turn_restrictions{}.csv", part));
                let mut txt = String::from("prev_edge_id,next_edge_id\n");
                for (i, p) in bad.iter().enumerate() {
                    if i % parts == part {
                        txt.push_str(&format!("{},{}\n", ju(&p[0]) - 1, ju(&p[1]) - 1));
                    }
                }
                std::fs::write(&path, txt).unwrap();
                models.push(json!({"type": "turn_restriction", "turn_restriction_input_file": path.to_str().unwrap()}));
            }
        }
    }
    if scn["veh_on"].as_bool().unwrap_or(false) {
        let path = dir.join("vehicle_restrictions.csv");
        let mut txt = String::from("edge_id,restriction_name,restriction_value,restriction_unit\n");
        // the file is a table, not a list grouped by edge: rows of one edge need not be adjacent
        let mut rows: Vec<(usize, usize, String)> = vec![];
        for (i, rs) in scn["vrestr"].as_array().unwrap().iter().enumerate() {
            for (k, r) in rs.as_array().unwrap().iter().enumerate() {
                rows.push((i, k, format!("{},{},{},{}\n", i, r["kind"].as_str().unwrap(), r["val"], r["unit"].as_str().unwrap())));
            }
        }
        match scn["vr_order"].as_str().unwrap_or("edge") {
            "interleaved" => rows.sort_by_key(|r| (r.1, r.0)),                  // every edge's first row, then the second rows
            "reverse" => rows.reverse(),
            "by_kind" => rows.sort_by(|a, b| a.2.split(',').nth(1).cmp(&b.2.split(',').nth(1))),
            _ => {}
        }
        let parts = if scn["split_models"].as_bool().unwrap_or(false) { 2 } else { 1 };
        for part in 0..parts {
            let mut t = txt.clone();
            for (i, r) in rows.iter().enumerate() {
                if i % parts == part {
                    t.push_str(&r.2);
                }
            }
            let path = dir.join(format!("vehicle_restrictions{}.csv", part));
            std::fs::write(&path, t).unwrap();
            models.push(json!({"type": "vehicle_restriction", "vehicle_restriction_input_file": path.to_str().unwrap()}));
        }
        let _ = path;
        query["vehicle_parameters"] = scn["veh"].clone();
    }
    let registry: HashMap<String, Rc<dyn FrontierModelBuilder>> = HashMap::from([
        (String::from("vehicle_restriction"), Rc::new(VehicleRestrictionBuilder {}) as Rc<dyn FrontierModelBuilder>),
        (String::from("road_class"), Rc::new(RoadClassBuilder {}) as Rc<dyn FrontierModelBuilder>),
        (String::from("turn_restriction"), Rc::new(TurnRestrictionBuilder {}) as Rc<dyn FrontierModelBuilder>),
    ]);
    let service: Arc<dyn FrontierModelService> = match models.len() {
        0 => Arc::new(NoRestriction {}),
        1 => registry[models[0]["type"].as_str().unwrap()]
            .build(&models[0])
            .map_err(|e| format!("frontier builder: {}", e))?,
        _ => CombinedBuilder { builders: registry.clone() }
            .build(&json!({ "models": models }))
            .map_err(|e| format!("combined frontier builder: {}", e))?,
    };
    let inner_f = service.build(&query, state_model.clone()).map_err(|e| format!("frontier: {}", e))?;
    let frontier_model: Arc<dyn FrontierModel> = Arc::new(RecF { inner: inner_f, rec: rec.clone() });

    // termination model
    let (itl, szl) = (ji(&scn["itl"]), ji(&scn["szl"]));
    let mut terms = vec![];
    if itl >= 0 {
        terms.push(TerminationModel::IterationsLimit { limit: itl as u64 });
    }
    if szl >= 0 {
        terms.push(TerminationModel::SolutionSizeLimit { limit: szl as usize });
    }
    // runtime limit: a zero budget (exhausted from the start) or RT_BUDGET_MS, checked every rtf-th iteration
    let rtf = scn["rtf"].as_u64().unwrap_or(0);
    if rtf > 0 {
        let ms = if scn["rtx"].as_bool().unwrap_or(false) { 0 } else { RT_BUDGET_MS };
        terms.push(TerminationModel::QueryRuntimeLimit { limit: std::time::Duration::from_millis(ms), frequency: rtf });
        if let Some(at) = scn["sleep_at"].as_u64().filter(|a| *a > 0) {
            *rec.sleep.lock().unwrap() = (at as usize, 2 * RT_BUDGET_MS + 10);
        }
    }
    let termination_model = match terms.len() {
        0 => TerminationModel::IterationsLimit { limit: u64::MAX - 1 },
        1 => terms.pop().unwrap(),
        _ => TerminationModel::Combined { models: terms },
    };

    let si = SearchInstance {
        directed_graph: graph,
        state_model,
        traversal_model,
        access_model,
        cost_model: Arc::new(cost_model),
        frontier_model,
        termination_model: Arc::new(termination_model),
    };
    Ok(Built { si, rec, dunit: du, tunit: tu })
}

// ---------------------------------------------------------------------------------------------
// logging helpers: state by *name*, in metres / seconds, as integers (exact profile) or scaled
pub struct Lg<'a> {
    pub b: &'a Built,
    pub exact: bool,
}
impl<'a> Lg<'a> {
    pub fn st(&self, state: &[f64]) -> Value {
        let sv: Vec<StateVar> = state.iter().map(|x| StateVar(*x)).collect();
        let sm = &self.b.si.state_model;
        let d = sm.get_distance(&sv, &String::from("distance"), &DistanceUnit::Meters).map(|d| d.as_f64());
        let t = sm.get_time(&sv, &String::from("time"), &TimeUnit::Seconds).map(|d| d.as_f64());
        match (d, t) {
            (Ok(d), Ok(t)) => {
                // values must be integral (metres / seconds): exactly in the base-unit profile, within the noise of a
                // there-and-back unit conversion (1e-6 relative) in the unit profile; anything else is logged scaled
                // by 1000 with a marker, which no specification state equals
                let f = if self.exact { exact_int } else { near_int };
                match (f(d), f(t)) {
                    (Ok(d), Ok(t)) => json!([d, t]),
                    _ => json!([scaled(d, 1000.0), scaled(t, 1000.0), "inexact"]),
                }
            }
            _ => json!(["state-error"]),
        }
    }
    pub fn cost(&self, c: Cost) -> i64 {
        scaled(c.as_f64(), 1000.0)
    }
}

fn tree_json(lg: &Lg, tree: &HashMap<VertexId, SearchTreeBranch>) -> Value {
    let mut rows: Vec<(usize, Value)> = tree
        .iter()
        .map(|(k, b)| {
            let st = lg.st(&raw(&b.edge_traversal.result_state));
            (
                k.0,
                json!({"v": k.0 + 1, "p": b.terminal_vertex.0 + 1, "e": b.edge_traversal.edge_id.0 + 1, "st": st,
                       "acc": lg.cost(b.edge_traversal.access_cost), "trv": lg.cost(b.edge_traversal.traversal_cost)}),
            )
        })
        .collect();
    rows.sort_by_key(|r| r.0);
    Value::Array(rows.into_iter().map(|r| r.1).collect())
}

fn route_json(lg: &Lg, route: &[EdgeTraversal]) -> Value {
    Value::Array(
        route
            .iter()
            .map(|et| {
                json!({"e": et.edge_id.0 + 1, "st": lg.st(&raw(&et.result_state)),
                       "acc": lg.cost(et.access_cost), "trv": lg.cost(et.traversal_cost)})
            })
            .collect(),
    )
}

pub fn outcome_of(r: &Result<SearchAlgorithmResult, SearchError>) -> (String, String) {
    match r {
        Ok(_) => ("ok".into(), String::new()),
        Err(SearchError::NoPathExistsBetweenVertices(_, _)) | Err(SearchError::NoPathExistsBetweenEdges(_, _)) => {
            ("nopath".into(), format!("{}", r.as_ref().err().unwrap()))
        }
        Err(e) => {
            let msg = format!("{}", e);
            if msg.contains("query terminated") || msg.contains("exceeded") {
                ("terminated".into(), msg)
            } else {
                ("error".into(), msg)
            }
        }
    }
}

/// turns the recorded call stream of ONE run_a_star invocation into Relax events: one event per
/// maximal run of calls about the same candidate edge (frontier test, access, traversal); estimate
/// calls attach to the current group. Nothing is assumed about which of the calls the loop makes.
pub fn relax_events(lg: &Lg, calls: &[Call]) -> Vec<Value> {
    let mut evs: Vec<Value> = vec![];
    let mut cur: Option<(usize, Value)> = None;
    fn fresh(e: usize) -> Value {
        json!({"ev": "Relax", "e": e + 1, "last": -1, "valid": true, "fcalled": false, "cs": [], "est": -1,
               "as": [], "st": [], "tb": [], "te": 0, "ae": [], "slept": false})
    }
    for c in calls {
        let edge = match c {
            Call::F { e, .. } => Some(*e),
            Call::T { e, .. } => Some(*e),
            Call::A { e1, e2, .. } => match &cur {
                // the candidate is whichever of the two edges the current group is about (forward: e2, reverse: e1)
                Some((ce, _)) if ce == e1 || ce == e2 => Some(*ce),
                _ => None,
            },
            Call::E { .. } => None,
        };
        let start_new = match (c, &cur) {
            (Call::E { .. }, _) => false,
            (Call::A { .. }, Some(_)) if edge.is_some() => false,
            (Call::A { .. }, _) => true,
            // a second frontier test or traversal of the same edge starts a new group (parallel expansions of one edge do not exist)
            (Call::F { e, .. }, Some((ce, ev))) => ce != e || ev["fcalled"].as_bool().unwrap_or(false),
            (Call::T { e, .. }, Some((ce, ev))) => ce != e || ev["te"].as_u64().unwrap_or(0) != 0,
            (_, None) => true,
        };
        if start_new {
            if let Some((_, ev)) = cur.take() {
                evs.push(ev);
            }
            let e = match c {
                Call::F { e, .. } | Call::T { e, .. } => *e,
                Call::A { e2, .. } => *e2,
                Call::E { .. } => unreachable!(),
            };
            cur = Some((e, fresh(e)));
        }
        match (c, cur.as_mut()) {
            (Call::F { e: _, prev, state, ok }, Some((_, ev))) => {
                ev["fcalled"] = json!(true);
                ev["valid"] = json!(ok);
                ev["last"] = json!(prev.map(|p| p + 1).unwrap_or(0));
                ev["cs"] = lg.st(state);
            }
            (Call::A { e1, e2, after }, Some((_, ev))) => {
                ev["as"] = lg.st(after);
                ev["ae"] = json!([e1 + 1, e2 + 1]);
            }
            (Call::T { e, before, after, slept }, Some((_, ev))) => {
                ev["tb"] = lg.st(before);
                ev["te"] = json!(e + 1);
                ev["st"] = lg.st(after);
                if *slept {
                    ev["slept"] = json!(true);
                }
            }
            (Call::E { src, .. }, Some((_, ev))) => {
                ev["est"] = json!(src + 1);
            }
            (Call::E { .. }, None) => {}
            _ => {}
        }
    }
    if let Some((_, ev)) = cur.take() {
        evs.push(ev);
    }
    evs
}

/// every unit of the scenario is the base unit: no conversion happens anywhere and logged values must be exact
pub fn base_units(scn: &Value) -> bool {
    norm_units(scn) == json!({"distance": "meters", "time": "seconds", "speed": "mps", "delay": "seconds",
                              "state_distance": "meters", "state_time": "seconds"})
}

fn algorithm(scn: &Value) -> SearchAlgorithm {
    match scn["alg"].as_str().unwrap_or("dijkstra") {
        "dijkstra" => SearchAlgorithm::Dijkstra,
        _ => {
            if scn["wf_src"].as_str().unwrap_or("alg") == "alg" {
                // a weight factor of one may be left unset
                if ji(&scn["wf"]) == 1000 && scn["omit_zero"].as_bool().unwrap_or(false) {
                    return SearchAlgorithm::AStarAlgorithm { weight_factor: None };
                }
                SearchAlgorithm::AStarAlgorithm { weight_factor: Some(Cost::new(jf(&scn["wf"]) / 1000.0)) }
            } else {
                // the query overrides the configured factor
                SearchAlgorithm::AStarAlgorithm { weight_factor: Some(Cost::new(7.0)) }
            }
        }
    }
}

/// the spec-facing scenario record (Setup event), enriched with values obtained from the real code:
/// h (the estimate the search will use for every vertex, times the weight factor), gc (great-circle
/// distances to the target from the code's own haversine) and vmax.
fn setup_event(scn: &Value, b: &Built, lg: &Lg) -> Value {
    let nv = ju(&scn["nv"]);
    let dst = ju(&scn["dst"]);
    let wf = if scn["alg"].as_str().unwrap_or("dijkstra") == "dijkstra" { 0.0 } else { jf(&scn["wf"]) / 1000.0 };
    let init = b.si.state_model.initial_state().unwrap();
    let mut h = vec![0i64; nv];
    let mut gc = vec![0i64; nv];
    if dst > 0 {
        for v in 0..nv {
            let c = b.si.estimate_traversal_cost(VertexId(v), VertexId(dst - 1), &init).map(|c| c.as_f64()).unwrap_or(f64::NAN);
            h[v] = scaled(c * wf, 1000.0);
            let vs = b.si.directed_graph.get_vertex(&VertexId(v)).unwrap();
            let vd = b.si.directed_graph.get_vertex(&VertexId(dst - 1)).unwrap();
            gc[v] = haversine::coord_distance_meters(&vs.coordinate.0, &vd.coordinate.0)
                .map(|d| scaled(d.as_f64(), 10.0))
                .unwrap_or(-1);
        }
    }
    b.rec.take();
    let mut ev = scn.clone();
    ev["ev"] = json!("Setup");
    ev["h"] = json!(h);
    ev["gc"] = json!(gc);
    ev["init_obs"] = lg.st(&raw(&init));
    ev["units"] = norm_units(scn);
    ev["rtf"] = json!(scn["rtf"].as_u64().unwrap_or(0));
    ev["rtx"] = json!(scn["rtx"].as_bool().unwrap_or(false));
    let (od, ot) = rate_offsets(scn);
    ev["od"] = json!(od);
    ev["ot"] = json!(ot);
    ev
}

pub fn run_scenario(out: &mut Out, scn: &Value) {
    out.scenario(scn);
    let b = match build_instance(scn) {
        Ok(b) => b,
        Err(e) => {
            out.event(json!({"ev": "BuildError", "msg": e}));
            return;
        }
    };
    let lg = Lg { b: &b, exact: base_units(scn) };
    out.event(setup_event(scn, &b, &lg));
    let alg = algorithm(scn);
    let dir = if scn["dir"].as_str().unwrap_or("fwd") == "fwd" { Direction::Forward } else { Direction::Reverse };
    let mut query = json!({});
    if scn["alg"].as_str().unwrap_or("dijkstra") != "dijkstra" && scn["wf_src"].as_str().unwrap_or("alg") == "query" {
        query["weight_factor"] = json!(jf(&scn["wf"]) / 1000.0);
    }
    let src = VertexId(ju(&scn["src"]) - 1);
    let dst = match ju(&scn["dst"]) {
        0 => None,
        d => Some(VertexId(d - 1)),
    };
    let edge_mode = scn["orient"].as_str().unwrap_or("vertex") == "edge";
    let adjacent = edge_mode && dst == Some(src);
    let result = if edge_mode {
        let odst = match ju(&scn["odst"]) {
            0 => None,
            e => Some(EdgeId(e - 1)),
        };
        alg.run_edge_oriented(EdgeId(ju(&scn["osrc"]) - 1), odst, &query, &dir, &b.si)
    } else {
        alg.run_vertex_oriented(src, dst, &query, &dir, &b.si)
    };
    let mut calls = b.rec.take();
    if adjacent {
        calls.clear(); // no search: the two edges are traversed directly
    }
    // the first call of a search towards a target is the estimate for the origin
    let body: &[Call] = match (dst, calls.first()) {
        (Some(_), Some(Call::E { .. })) => &calls[1..],
        _ => &calls[..],
    };
    for ev in relax_events(&lg, body) {
        out.event(ev);
    }
    let (outcome, msg) = outcome_of(&result);
    let mut end = json!({"ev": "End", "outcome": outcome, "msg_iter": msg.contains("iteration limit"),
                         "msg_size": msg.contains("solution size limit"), "msg_rt": msg.contains("runtime limit"), "msg": msg,
                         "iters": -1, "tree": [], "route": [], "nroutes": 0, "ntrees": 0});
    if let Ok(r) = &result {
        end["iters"] = json!(r.iterations);
        end["ntrees"] = json!(r.trees.len());
        end["nroutes"] = json!(r.routes.len());
        if let Some(t) = r.trees.first() {
            end["tree"] = tree_json(&lg, t);
        }
        if let Some(rt) = r.routes.first() {
            end["route"] = route_json(&lg, rt);
        }
    }
    out.event(end);
}

// ---------------------------------------------------------------------------------------------
// seeded scenario generator (exact profile: metres, m/s, seconds, integer weights and rates)
pub struct GenOpts {
    pub max_v: usize,
    pub focus: String,
}

pub fn gen_scenario(r: &mut StdRng, o: &GenOpts) -> Value {
    let nv = r.gen_range(2..=o.max_v);
    // vertices on a milli-degree lattice around (0,0): 0.001 deg ~ 111 m
    let side = ((nv as f64).sqrt().ceil() as i64 + 1).max(2);
    let mut xy: Vec<(i64, i64)> = vec![];
    while xy.len() < nv {
        let p = (r.gen_range(0..=side), r.gen_range(0..=side));
        if !xy.contains(&p) || r.gen_bool(0.05) {
            xy.push(p);
        }
    }
    let metric = r.gen_bool(0.75);
    let ne = r.gen_range(1..=(nv * 3).max(2));
    // unit profile: the state features, the traversal model, the speed table and the turn-delay table each get their
    // own unit.  Only units whose factors are decimal or sexagesimal are drawn, and every edge time / delay is a
    // multiple of tq seconds, so that every state value is an integer in metres / seconds and every cost an integer
    // in milli-cost: the trace stays exact.
    let p_units = match o.focus.as_str() {
        "c02" => 0.4,
        "c03" => 0.5,
        "c20" | "c06" | "c12" => 0.0,
        _ => 0.15,
    };
    let unit_profile = r.gen_bool(p_units);
    let dus = ["meters", "kilometers"];
    let tus = ["seconds", "milliseconds", "minutes", "hours"];
    let mut units = json!({"distance": "meters", "time": "seconds", "speed": "mps", "delay": "seconds",
                           "state_distance": "meters", "state_time": "seconds"});
    if unit_profile {
        let st = if nv <= 8 { ["seconds", "minutes", "hours", "minutes", "hours", "milliseconds"][r.gen_range(0..6)] } else { ["seconds", "minutes", "hours"][r.gen_range(0..3)] };
        units = json!({"distance": dus[r.gen_range(0..2)], "time": tus[r.gen_range(0..4)],
                       "speed": if r.gen_bool(0.5) {"kph"} else {"mps"}, "delay": tus[r.gen_range(0..4)],
                       "state_distance": dus[r.gen_range(0..2)], "state_time": st});
    }
    let ms_state = units["state_time"] == "milliseconds"; // large numbers: keep times and weights small (32-bit milli-cost)
    if ms_state {
        // add_time reads the accumulated value in the caller's unit and writes it back: with the nine-digit factors
        // between milliseconds and minutes / hours the accumulated 1e6 ms drift by 1e-3 ms per update, which is
        // visible in milli-cost.  (C09 / C11 bound that drift; here the trace must stay exact.)
        units["time"] = json!(["seconds", "milliseconds"][r.gen_range(0..2)]);
        units["delay"] = json!(["seconds", "milliseconds"][r.gen_range(0..2)]);
    }
    let tq: i64 = match units["state_time"].as_str().unwrap() { "minutes" => 3, "hours" => 18, _ => 1 };
    let speeds: &[i64] = if ms_state { &[10] } else { &[1i64, 2, 4, 5, 10] };
    let mut edges = vec![];
    let mut hd = vec![];
    // a random backbone (most of the time) keeps a fair share of the queries answerable
    let backbone = r.gen_bool(0.7);
    let mut perm: Vec<usize> = (0..nv).collect();
    for i in (1..nv).rev() {
        perm.swap(i, r.gen_range(0..=i));
    }
    for i in 0..ne {
        let (s, d) = if backbone && i + 1 < nv {
            if r.gen_bool(0.8) { (perm[i], perm[i + 1]) } else { (perm[i + 1], perm[i]) }
        } else {
            let s = r.gen_range(0..nv);
            (s, if r.gen_bool(0.04) { s } else { r.gen_range(0..nv) })
        };
        let spd = speeds[r.gen_range(0..speeds.len())];
        let len = if metric {
            let (dx, dy) = ((xy[s].0 - xy[d].0) as f64, (xy[s].1 - xy[d].1) as f64);
            let gc = 111_320.0 * 0.001 * (dx * dx + dy * dy).sqrt(); // generous upper estimate of the great-circle distance
            let base = (gc * 1.02).ceil() as i64 + 1 + if !ms_state && r.gen_bool(0.5) { r.gen_range(0..400) } else { 0 };
            ((base + spd * tq - 1) / (spd * tq)) * spd * tq
        } else {
            spd * tq * r.gen_range(1..=(if ms_state { 60 } else { 300 / tq }))
        };
        edges.push(json!([s + 1, d + 1, len, spd]));
        let a = r.gen_range(0..360);
        let bnd = if r.gen_bool(0.7) { a } else { r.gen_range(0..360) };
        hd.push(json!([a, bnd]));
    }
    let src = r.gen_range(1..=nv);
    let mut dst = r.gen_range(1..=nv);
    if dst == src {
        dst = if src == nv { 1 } else { src + 1 };
    }
    if o.focus == "c05" && r.gen_bool(0.35) || o.focus != "c05" && r.gen_bool(0.08) {
        dst = 0;
    }
    let alg = if r.gen_bool(0.4) { "dijkstra" } else { "astar" };
    let wfs = [0i64, 500, 1000, 1000, 1000, 1700, 3000];
    let wf = wfs[r.gen_range(0..wfs.len())];
    let model = if r.gen_bool(0.3) { "distance" } else { "speed" };
    let (mut wd, mut wt) = (r.gen_range(0..=3i64), r.gen_range(0..=3i64));
    if model == "distance" && wd == 0 {
        wd = 1;
    }
    if wd + wt == 0 {
        wt = 1;
    }
    let rd = [1i64, 1, 2, 3][r.gen_range(0..4)];
    let mut rt = [1i64, 1, 2, 5][r.gen_range(0..4)];
    if ms_state {
        wt = wt.min(2);
        rt = if wt == 2 { 1 } else { rt.min(2) };
        if wd + wt == 0 {
            wt = 1;
        }
    }
    let sur: Vec<i64> = (0..ne).map(|_| if r.gen_bool(0.15) { r.gen_range(1..200) } else { 0 }).collect();
    let with_sur = r.gen_bool(0.3);
    let sur: Vec<i64> = if with_sur { sur } else { vec![0; ne] };
    // access
    let turn = match o.focus.as_str() {
        "c03" => r.gen_bool(0.7),
        "c02" | "c05" => false,
        _ => r.gen_bool(0.3),
    } && model == "speed";
    let delay: Vec<i64> = (0..8).map(|_| tq * r.gen_range(0..=(30 / tq))).collect();
    // frontier
    let with_cls = match o.focus.as_str() {
        "c04" | "c05" => r.gen_bool(0.8),
        _ => r.gen_bool(0.25),
    };
    let with_bad = match o.focus.as_str() {
        "c04" => r.gen_bool(0.6),
        "c02" | "c05" => false,
        _ => r.gen_bool(0.15),
    };
    let mut scn = json!({
        "profile": "exact", "nv": nv, "xy": xy.iter().map(|p| json!([p.0, p.1])).collect::<Vec<_>>(),
        "E": edges, "hd": hd, "src": src, "dst": dst,
        "dir": if r.gen_bool(0.7) {"fwd"} else {"rev"},
        "alg": alg, "wf": if alg == "dijkstra" {0} else {wf}, "wf_src": if r.gen_bool(0.8) {"alg"} else {"query"},
        "model": model, "wd": wd, "wt": wt, "rd": rd, "rt": rt, "sur": sur,
        "acc": if turn {"turn"} else {"none"}, "delay": if turn { delay } else { vec![0; 8] },
        "bad": [], "itl": -1, "szl": -1,
        "init": if r.gen_bool(0.2) { json!([r.gen_range(0..1000), r.gen_range(0..1000)]) } else { json!([0, 0]) },
        "units": units,
        "cls": [], "allowed_on": false, "allowed": [], "est_mode": "real", "hscript": [],
        "orient": "vertex", "osrc": 0, "odst": 0,
        "cost_src": if r.gen_bool(0.35) {"query"} else {"config"},
    });
    // edge-oriented queries: origin / destination given as edges (forward searches, as the application runs them)
    let edge_oriented = match o.focus.as_str() {
        "c01" | "c03" | "c05" => r.gen_bool(0.3),
        "c13" | "c20" | "c06" => false,
        _ => r.gen_bool(0.1),
    };
    if edge_oriented {
        let osrc = r.gen_range(1..=ne);
        let mut odst = r.gen_range(0..=ne);
        if odst == osrc {
            odst = if osrc == ne { if ne > 1 { 1 } else { 0 } } else { osrc + 1 };
        }
        scn["orient"] = json!("edge");
        scn["osrc"] = json!(osrc);
        scn["odst"] = json!(odst);
        scn["dir"] = json!("fwd");
        scn["wf_src"] = json!("alg");   // the edge-oriented entry point takes the configured weight factor
        // the searched part runs between the origin edge's end vertex and the destination edge's start vertex
        scn["src"] = scn["E"][osrc - 1][1].clone();
        scn["dst"] = if odst == 0 { json!(0) } else { scn["E"][odst - 1][0].clone() };
    }
    if with_cls {
        let ncls = r.gen_range(1..=4u8);
        let cls: Vec<u8> = (0..ne).map(|_| r.gen_range(0..ncls)).collect();
        scn["cls"] = json!(cls);
        let allowed: Vec<u8> = (0..ncls).filter(|_| r.gen_bool(0.7)).collect();
        if r.gen_bool(0.85) {
            if r.gen_bool(0.3) {
                // names through the mapping
                let mapping: serde_json::Map<String, Value> = (0..ncls).map(|c| (format!("class{}", c), json!(c))).collect();
                scn["clsmap"] = Value::Object(mapping);
                scn["allowed_query"] = json!(allowed.iter().map(|c| format!("class{}", c)).collect::<Vec<_>>());
            } else {
                scn["allowed_query"] = json!(allowed);
            }
            scn["allowed"] = json!(allowed);
            scn["allowed_on"] = json!(true);
        } // else no per-query set: everything permitted
    }
    if with_bad {
        let pairs: Vec<(usize, usize)> = (0..ne)
            .flat_map(|a| (0..ne).map(move |b| (a, b)))
            .filter(|(a, b)| scn["E"][*a][1] == scn["E"][*b][0])
            .collect();
        let mut bad = vec![];
        for p in pairs {
            if r.gen_bool(0.25) {
                bad.push(json!([p.0 + 1, p.1 + 1]));
            }
        }
        scn["bad"] = json!(bad);
        scn["force_turn_model"] = json!(true);
    }
    scn["split_models"] = json!(r.gen_bool(0.35));
    scn["omit_zero"] = json!(r.gen_bool(0.5));
    scn["veh_on"] = json!(false);
    scn["vrestr"] = json!(vec![json!([]); ne]);
    scn["veh"] = json!({"height": [3, "meters"], "width": [8, "feet"], "total_length": [400, "inches"],
                        "trailer_length": [5, "meters"], "total_weight": [10, "tons"], "number_of_axles": 3});
    let with_veh = match o.focus.as_str() {
        "c04" => r.gen_bool(0.5),
        "c05" => r.gen_bool(0.3),
        _ => r.gen_bool(0.1),
    };
    if with_veh {
        // limits are drawn from values at least 2 % away from the vehicle's value after conversion
        let table: [(&str, &[(i64, &str)]); 6] = [
            ("maximum_height", &[(2, "meters"), (4, "meters"), (8, "feet"), (12, "feet"), (100, "inches"), (140, "inches")]),
            ("maximum_width", &[(2, "meters"), (3, "meters"), (7, "feet"), (9, "feet"), (90, "inches"), (100, "inches")]),
            ("maximum_length", &[(9, "meters"), (11, "meters"), (30, "feet"), (36, "feet"), (380, "inches"), (420, "inches")]),
            ("maximum_trailer_length", &[(4, "meters"), (6, "meters"), (15, "feet"), (18, "feet"), (180, "inches"), (210, "inches")]),
            ("maximum_total_weight", &[(9, "tons"), (11, "tons"), (19000, "pounds"), (21000, "pounds"), (8500, "kg"), (9500, "kg")]),
            ("maximum_weight_per_axle", &[(3, "tons"), (4, "tons"), (6000, "pounds"), (7000, "pounds"), (2900, "kg"), (3200, "kg")]),
        ];
        let vr: Vec<Value> = (0..ne)
            .map(|_| {
                let mut rs = vec![];
                for _ in 0..(if r.gen_bool(0.4) { 0 } else { r.gen_range(1..=3) }) {
                    let (k, opts) = table[r.gen_range(0..6)];
                    let (v, u) = opts[r.gen_range(0..opts.len())];
                    rs.push(json!({"kind": k, "val": v, "unit": u}));
                }
                json!(rs)
            })
            .collect();
        let mut vr = vr;
        // every other vehicle states its weight in pounds (20 500 lb = 10.25 short tons); a 10-ton limit then forbids it by 2.5 %
        if r.gen_bool(0.5) {
            scn["veh"]["total_weight"] = json!([20500, "pounds"]);
            for rs in vr.iter_mut() {
                for x in rs.as_array_mut().unwrap().iter_mut() {
                    if x["kind"] == "maximum_total_weight" && r.gen_bool(0.5) {
                        *x = json!({"kind": "maximum_total_weight", "val": 10, "unit": "tons"});
                    }
                }
            }
        }
        scn["veh_on"] = json!(true);
        scn["vrestr"] = json!(vr);
        scn["vr_order"] = json!(["edge", "interleaved", "reverse", "by_kind"][r.gen_range(0..4)]);
    }
    if o.focus == "c10" || r.gen_bool(0.1) {
        if r.gen_bool(0.7) {
            scn["itl"] = json!(r.gen_range(0..=(nv as i64 + 1)));
        }
        if r.gen_bool(0.5) {
            scn["szl"] = json!(r.gen_range(0..=(nv as i64)));
        }
        // runtime limit with any check frequency: a zero budget, or a budget that a model call uses up at a known point
        // (a few of them only: each one sleeps for a tenth of a second), or one that is never used up
        if r.gen_bool(0.3) {
            scn["rtf"] = json!(r.gen_range(1..=4));
            match r.gen_range(0..10) {
                0..=3 => scn["rtx"] = json!(true),
                4 | 5 if o.focus == "c10" && scn["orient"] == "vertex" => scn["sleep_at"] = json!(r.gen_range(1..=6)),
                _ => {}
            }
        }
    }
    scn
}

pub fn main(args: &[String]) -> i32 {
    let mut out = Out::new();
    if has_flag(args, "--scenarios") {
        for s in read_scenarios() {
            guarded(&mut out, |o| run_scenario(o, &s));
        }
    } else {
        let n = arg_usize(args, "--random", 100);
        let o = GenOpts { max_v: arg_usize(args, "--maxv", 10), focus: arg_val(args, "--focus").unwrap_or_default() };
        let mut r = rng(21 + o.focus.bytes().map(|b| b as u64).sum::<u64>());
        for _ in 0..n {
            let s = gen_scenario(&mut r, &o);
            guarded(&mut out, |out| run_scenario(out, &s));
        }
        if o.focus == "c10" {
            // the limits as the application reads them: termination sections built by the configuration builder
            // (time budgets are written H:MM:SS), alone and nested in a combined model
            for i in 0..(n / 4).max(30) {
                let (h, m, sec) = ([0u64, 0, 1, 2, 10, 100][r.gen_range(0..6)], r.gen_range(0..100u64), r.gen_range(0..100u64));
                let text = match i % 9 {
                    7 => format!("{}:{}:{:02}", h, m % 10, sec),      // minutes need two digits: refused
                    8 => String::from("ten minutes"),
                    _ => format!("{}:{:02}:{:02}", h, m, sec),
                };
                let (freq, itl, szl) = (r.gen_range(1..=50u64), r.gen_range(0..=2000u64), r.gen_range(0..=2000u64));
                let rt = json!({"type": "query_runtime", "limit": text, "frequency": freq});
                let cfg = if i % 2 == 0 { rt.clone() } else {
                    json!({"type": "combined", "models": [{"type": "iterations", "limit": itl}, rt, {"type": "solution_size", "limit": szl}]})
                };
                let scn = json!({"check": "termcfg", "cfg": cfg});
                guarded(&mut out, |out| {
                    out.scenario(&scn);
                    let built = routee_compass::app::compass::config::termination_model_builder::TerminationModelBuilder::build(&cfg, None);
                    fn flat(t: &TerminationModel, acc: &mut Vec<Value>) {
                        match t {
                            TerminationModel::QueryRuntimeLimit { limit, frequency } => acc.push(json!(["rt", limit.as_millis() as u64 / 1000, limit.subsec_millis(), frequency])),
                            TerminationModel::IterationsLimit { limit } => acc.push(json!(["it", limit, 0, 0])),
                            TerminationModel::SolutionSizeLimit { limit } => acc.push(json!(["sz", limit, 0, 0])),
                            TerminationModel::Combined { models } => models.iter().for_each(|m| flat(m, acc)),
                        }
                    }
                    let mut models = vec![];
                    if let Ok(t) = &built {
                        flat(t, &mut models);
                    }
                    let wellformed = i % 9 < 7;
                    out.event(json!({"ev": "TermBuilt", "ok": built.is_ok(), "wellformed": wellformed, "h": h, "m": m, "s": sec, "freq": freq,
                                     "combined": i % 2 == 1, "itl": itl, "szl": szl, "models": models}));
                });
            }
        }
    }
    out.flush();
    0
}
