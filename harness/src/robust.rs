//! C12: hostile batches against the real CompassApp::run, each in a child process with a memory
//! and wall-clock limit, so that a panic, abort, OOM or hang becomes data.
use crate::app::*;
use crate::batch::canonical;
use crate::search::scratch_dir;
use crate::util::*;
use rand::rngs::StdRng;
use rand::Rng;
use serde_json::{json, Value};
use std::io::Read;
use std::process::{Command, Stdio};
use std::time::{Duration, Instant};

fn net() -> Value {
    // a 3 x 2 lattice, bidirectional streets, vertex 5 reachable only one way
    json!({"nv": 6, "xy": [[0,0],[1,0],[2,0],[0,1],[1,1],[2,1]],
           "E": [[1,2,120,2],[2,1,120,2],[2,3,120,2],[3,2,120,2],[1,4,120,2],[4,1,120,2],[2,5,120,2],[5,2,120,2],[4,5,120,4],[5,4,120,4],[3,6,120,2]]})
}

fn config_opts(cfg: &str, dir: &std::path::Path) -> Value {
    let mut o = json!({"parallelism": 2});
    let v = "{ type = \"vertex_rtree\", vertices_input_file = \"$VERTICES\", distance_tolerance = 2000, distance_unit = \"meters\" }";
    match cfg {
        "plain" => {}
        "dijkstra" => o["algorithm_toml"] = json!("[algorithm]\ntype = \"dijkstra\"\n"),
        "vrtree" => o["input_plugins_toml"] = json!(v),
        "grid" => o["input_plugins_toml"] = json!("{ type = \"grid_search\" }"),
        "grid_vrtree" => o["input_plugins_toml"] = json!(format!("{{ type = \"grid_search\" }}, {}", v)),
        "lb" => o["input_plugins_toml"] = json!(format!("{}, {{ type = \"load_balancer\", weight_heuristic = {{ type = \"haversine\" }} }}", v)),
        "lb_custom" => o["input_plugins_toml"] = json!("{ type = \"load_balancer\", weight_heuristic = { type = \"custom\", custom_weight_type = { type = \"numeric\", column_name = \"w\" } } }"),
        "inject" => o["input_plugins_toml"] = json!("{ type = \"inject\", key = \"injected\", value = \"7\", format = \"json\" }"),
        "inject_grid" => o["input_plugins_toml"] = json!("{ type = \"inject\", key = \"injected\", value = \"7\", format = \"json\" }, { type = \"grid_search\" }"),
        "ertree" => {
            o["orientation"] = json!("edge");
            o["input_plugins_toml"] = json!(format!("{{ type = \"edge_rtree\", geometry_input_file = \"{}\", distance_tolerance = 2000, distance_unit = \"meters\" }}",
                dir.join("geoms.txt").to_str().unwrap()));
        }
        "csvsink" => {
            o["response_output_policy_toml"] = json!(format!(
                "[response_output_policy]\ntype = \"file\"\nfilename = \"{}\"\nformat = {{ type = \"csv\", sorted = true, mapping = {{ o = \"request.origin_vertex\", d = \"route.traversal_summary.distance\" }} }}\n",
                dir.join("robust-out.csv").to_str().unwrap()));
        }
        "ksp_svp" => o["algorithm_toml"] = json!("[algorithm]\ntype = \"ksp_single_via\"\nk = 2\n[algorithm.underlying]\ntype = \"a*\"\n"),
        "ksp_yens" => o["algorithm_toml"] = json!("[algorithm]\ntype = \"yens\"\nk = 2\n[algorithm.underlying]\ntype = \"a*\"\n"),
        _ => panic!("cfg {}", cfg),
    }
    o
}

// ---------------------------------------------------------------------------------------------
// child: run one batch, print one JSON line
pub fn child(path: &str) -> i32 {
    let scn: Value = serde_json::from_str(&std::fs::read_to_string(path).unwrap()).unwrap();
    let tag = format!("r{}", std::process::id());
    let cfg = scn["cfg"].as_str().unwrap();
    // files first (the edge rtree needs the geometry file path)
    let pre = write_app(&net(), &json!({"parallelism": 2}), &tag);
    let files = write_app(&net(), &config_opts(cfg, &pre.dir), &tag);
    let app = match build_app(&files) {
        Ok(a) => a,
        Err(e) => {
            println!("{}", json!({"kind": "build_error", "msg": e}));
            return 0;
        }
    };
    let batch: Vec<Value> = scn["batch"].as_array().unwrap().iter().map(|b| b["q"].clone()).collect();
    let r = app.run(batch.clone(), None);
    let _ = std::fs::remove_dir_all(&files.dir);
    match r {
        Err(e) => println!("{}", json!({"kind": "batch_error", "msg": e.to_string()})),
        Ok(rs) => {
            // match every response to the batch entry whose query its request echoes
            // (identical queries in one batch are indistinguishable: a response goes to the first matching entry that still
            // expects one - an entry expects as many responses as its query expands to)
            let mut resp = vec![];
            let capacity: Vec<usize> = scn["batch"].as_array().unwrap().iter().map(|b| b["n"].as_u64().unwrap_or(1).max(1) as usize).collect();
            let mut used = vec![0usize; batch.len()];
            for x in rs.iter() {
                let req = x.get("request").cloned().unwrap_or(Value::Null);
                let mut found = 0usize;
                let mut echo = false;
                let mut first_match = 0usize;
                for (i, q) in batch.iter().enumerate() {
                    let same = match (q.as_object(), req.as_object()) {
                        (Some(qo), Some(ro)) => {
                            // the load balancer plugin legitimately (over)writes the weight estimate
                            qo.iter().all(|(k, v)| k == "grid_search" || k == "query_weight_estimate" || ro.get(k) == Some(v)) && q.get("tag") == req.get("tag")
                        }
                        _ => canonical(q) == canonical(&req),
                    };
                    if same {
                        echo = true;
                        if first_match == 0 {
                            first_match = i + 1;
                        }
                        if used[i] < capacity[i] {
                            found = i + 1;
                            used[i] += 1;
                            break;
                        }
                    }
                }
                if found == 0 {
                    found = first_match; // more responses than the entry expects: the specification will say so
                }
                resp.push(json!({"q": found, "echo": echo, "err": x.get("error").is_some()}));
            }
            println!("{}", json!({"kind": "returned", "resp": resp}));
        }
    }
    0
}

// ---------------------------------------------------------------------------------------------
// parent
fn run_child(exe: &std::path::Path, scn_path: &std::path::Path, timeout: Duration) -> Value {
    let mut cmd = Command::new("sh");
    cmd.arg("-c")
        .arg("ulimit -v 4194304; exec \"$0\" robust-child \"$1\"")
        .arg(exe)
        .arg(scn_path)
        .stdout(Stdio::piped())
        .stderr(Stdio::piped());
    let mut ch = cmd.spawn().expect("spawn child");
    let t0 = Instant::now();
    loop {
        match ch.try_wait() {
            Ok(Some(st)) => {
                let mut so = String::new();
                let mut se = String::new();
                let _ = ch.stdout.take().unwrap().read_to_string(&mut so);
                let _ = ch.stderr.take().unwrap().read_to_string(&mut se);
                if st.success() {
                    if let Some(line) = so.lines().rev().find(|l| l.starts_with('{')) {
                        if let Ok(v) = serde_json::from_str::<Value>(line) {
                            return v;
                        }
                    }
                    return json!({"kind": "aborted", "msg": "no outcome line"});
                }
                let panicked = se.contains("panicked at");
                let msg: String = se.lines().filter(|l| l.contains("panicked") || l.contains("overflow") || l.contains("memory")).take(2).collect::<Vec<_>>().join(" | ");
                return json!({"kind": if panicked {"panicked"} else {"aborted"}, "msg": msg, "code": st.code()});
            }
            Ok(None) => {
                if t0.elapsed() > timeout {
                    let _ = ch.kill();
                    let _ = ch.wait();
                    return json!({"kind": "timeout", "msg": format!("no result after {:?}", timeout)});
                }
                std::thread::sleep(Duration::from_millis(5));
            }
            Err(e) => return json!({"kind": "aborted", "msg": e.to_string()}),
        }
    }
}

fn valid_query(cfg: &str, r: &mut StdRng, tag: usize) -> Value {
    let (o, d) = (r.gen_range(0..5), r.gen_range(0..6));
    match cfg {
        "vrtree" | "grid_vrtree" | "lb" => json!({"tag": tag, "origin_x": 0.001 * (o % 3) as f64, "origin_y": 0.001 * (o / 3) as f64,
                                                   "destination_x": 0.001 * (d % 3) as f64, "destination_y": 0.001 * (d / 3) as f64}),
        "ertree" => json!({"tag": tag, "origin_x": 0.0005, "origin_y": 0.0, "destination_x": 0.0015, "destination_y": 0.0}),
        "lb_custom" => json!({"tag": tag, "origin_vertex": o, "destination_vertex": d, "w": 3}),
        _ => json!({"tag": tag, "origin_vertex": o, "destination_vertex": d}),
    }
}

/// hostile / unusual queries: (tag, class, expansions, query)
fn hostile(cfg: &str, r: &mut StdRng, tag: usize) -> (String, &'static str, usize, Value) {
    let base = valid_query(cfg, r, tag);
    let with = |k: &str, v: Value| -> Value {
        let mut b = base.clone();
        b[k] = v;
        b
    };
    let without = |k: &str| -> Value {
        let mut b = base.clone();
        b.as_object_mut().unwrap().remove(k);
        b
    };
    let coord_cfg = matches!(cfg, "vrtree" | "grid_vrtree" | "lb" | "ertree");
    let okey = if coord_cfg { "origin_x" } else { "origin_vertex" };
    let dkey = if coord_cfg { "destination_y" } else { "destination_vertex" };
    let bad_vals = [json!("abc"), json!(null), json!([1, 2]), json!({"a": 1}), json!(true), json!(-1), json!(1.5e300), json!(123456789012i64), json!(-7.25)];
    let pick = r.gen_range(0..24);
    let non_obj = [json!(5), json!("query"), json!(null), json!([1, 2, 3]), json!(true), json!([]), json!(2.5)];
    let grid_cfg = matches!(cfg, "grid" | "grid_vrtree" | "inject_grid");
    match pick {
        0 => ("non_object".into(), "hostile", 1, non_obj[r.gen_range(0..non_obj.len())].clone()),
        1 => ("missing_origin".into(), "hostile", 1, without(okey)),
        2 => {
            let v = bad_vals[r.gen_range(0..bad_vals.len())].clone();
            // a number is a well-typed coordinate (far away or not): the matcher decides
            let cls = if coord_cfg && v.is_number() { "any" } else { "hostile" };
            ("illtyped_origin".into(), cls, 1, with(okey, v))
        }
        3 => {
            let v = bad_vals[r.gen_range(0..6)].clone();
            ("illtyped_destination".into(), if v.is_null() { "any" } else { "hostile" }, 1, with(dkey, v))
        }
        4 if !coord_cfg => ("out_of_range_origin".into(), "hostile", 1, with("origin_vertex", json!(6 + r.gen_range(0..1000)))),
        5 if !coord_cfg => ("out_of_range_destination".into(), "hostile", 1, with("destination_vertex", json!(6 + r.gen_range(0..1000)))),
        6 if !coord_cfg => {
            let v = r.gen_range(0..6);
            let mut b = with("origin_vertex", json!(v));
            b["destination_vertex"] = json!(v);
            ("same_origin_destination".into(), "any", 1, b)
        }
        7 if coord_cfg => ("coordinate_out_of_range".into(), "hostile", 1, with(okey, json!(if r.gen_bool(0.5) { 500.0 } else { -9999.0 }))),
        8 if coord_cfg => ("coordinate_far_away".into(), "hostile", 1, with("origin_y", json!(45.0))),
        9 if grid_cfg => ("grid_empty_object".into(), "any", 1, with("grid_search", json!({}))),
        10 if grid_cfg => ("grid_empty_array".into(), "hostile", 1, with("grid_search", json!({"a": []}))),
        11 if grid_cfg => ("grid_not_object".into(), "hostile", 1, with("grid_search", [json!(5), json!("x"), json!([1]), json!(null)][r.gen_range(0..4)].clone())),
        12 if grid_cfg => ("grid_scalar_field".into(), "any", 1, with("grid_search", json!({"a": 5}))),
        13 if grid_cfg => ("grid_nested".into(), "hostile", 1, with("grid_search", json!({"a": [{"grid_search": {"b": [1]}}]}))),
        14 if grid_cfg => {
            let n = r.gen_range(1..=4);
            let m = r.gen_range(1..=3);
            ("grid_valid".into(), "valid", n * m, with("grid_search", json!({"a": (0..n).collect::<Vec<_>>(), "b": (0..m).map(|i| json!({"c": i})).collect::<Vec<_>>()})))
        }
        15 => ("zero_weights".into(), "hostile", 1, with("weights", json!({"distance": 0, "time": 0}))),
        16 => ("illtyped_weights".into(), "hostile", 1, with("weights", [json!("heavy"), json!({"distance": "a"}), json!([1, 2]), json!(3)][r.gen_range(0..4)].clone())),
        17 => ("illtyped_weight_factor".into(), if cfg == "ertree" { "any" } else { "hostile" }, 1, with("weight_factor", [json!("fast"), json!(null), json!([1]), json!({"a": 1})][r.gen_range(0..4)].clone())),
        18 => ("bad_cost_aggregation".into(), "hostile", 1, with("cost_aggregation", [json!("max"), json!(7), json!(null)][r.gen_range(0..3)].clone())),
        19 => ("bad_vehicle_rates".into(), "hostile", 1, with("vehicle_rates", [json!("x"), json!({"time": {"type": "warp"}}), json!([1])][r.gen_range(0..3)].clone())),
        20 => ("weight_estimate_non_numeric".into(), "any", 1, with("query_weight_estimate", [json!("big"), json!(null), json!([1]), json!({"a": 2})][r.gen_range(0..4)].clone())),
        23 if grid_cfg => {
            // a grid list may repeat a value (also next to itself): every position is its own combination
            let v = r.gen_range(0..3);
            let lists = [json!([v, v]), json!([v, v, 7]), json!([7, v, v]), json!([v, 7, v])];
            let l = lists[r.gen_range(0..lists.len())].clone();
            let n = l.as_array().unwrap().len();
            ("grid_repeated_values".into(), "valid", n, with("grid_search", json!({"a": l})))
        }
        22 if !coord_cfg => {
            // a tree query (no destination) from a vertex that does not exist
            let mut b = with("origin_vertex", json!(6 + r.gen_range(0..1000)));
            b.as_object_mut().unwrap().remove("destination_vertex");
            ("out_of_range_origin_no_destination".into(), "hostile", 1, b)
        }
        21 if cfg.starts_with("ksp") => ("bad_k".into(), "any", 1, with("k", [json!(0), json!(-1), json!("x"), json!(1), json!(1000), json!(u64::MAX), json!(1u64 << 62), json!(4_294_967_296u64), json!(1.5)][r.gen_range(0..9)].clone())),
        _ => ("missing_both".into(), "hostile", 1, json!({"tag": tag})),
    }
}

fn answerable(cfg: &str, q: &Value) -> bool {
    // vertex 5 (0-based) has no outgoing edge: queries starting there are unanswerable; everything else is connected
    if cfg == "ertree" {
        return true;
    }
    match (q.get("origin_vertex").and_then(|v| v.as_i64()), q.get("origin_x")) {
        (Some(5), _) => false,
        (Some(o), _) => q.get("destination_vertex").and_then(|v| v.as_i64()).map(|d| d != o).unwrap_or(true),
        (None, Some(x)) => {
            let (ox, oy) = (x.as_f64().unwrap_or(0.0), q["origin_y"].as_f64().unwrap_or(0.0));
            let (dx, dy) = (q["destination_x"].as_f64().unwrap_or(0.0), q["destination_y"].as_f64().unwrap_or(0.0));
            !(ox > 0.0015 && oy > 0.0005) && !(ox == dx && oy == dy)
        }
        _ => false,
    }
}

pub fn main(args: &[String]) -> i32 {
    let mut out = Out::new();
    let exe = std::env::current_exe().unwrap();
    let dir = scratch_dir();
    let timeout = Duration::from_secs(arg_usize(args, "--timeout", 20) as u64);
    let mut scenarios: Vec<Value> = vec![];
    if has_flag(args, "--scenarios") {
        scenarios = read_scenarios();
    } else {
        let n = arg_usize(args, "--random", 100);
        let mut r = rng(12);
        let cfgs: Vec<&str> = arg_val(args, "--cfgs")
            .map(|s| s.split(',').map(|x| Box::leak(x.to_string().into_boxed_str()) as &str).collect())
            .unwrap_or_else(|| vec!["plain", "dijkstra", "vrtree", "grid", "grid_vrtree", "lb", "lb_custom", "inject", "inject_grid", "ertree", "csvsink", "ksp_svp"]);
        for i in 0..n {
            let cfg = cfgs[i % cfgs.len()];
            let mut batch = vec![];
            if r.gen_bool(0.03) {
                scenarios.push(json!({"cfg": cfg, "batch": [], "empty": true}));
                continue;
            }
            let nb = r.gen_range(1..=4);
            for t in 0..nb {
                if r.gen_bool(0.35) {
                    let q = valid_query(cfg, &mut r, t + 1);
                    let a = answerable(cfg, &q);
                    batch.push(json!({"tag": "valid", "cls": "valid", "n": 1, "answerable": a, "q": q}));
                } else {
                    let (tag, cls, nexp, q) = hostile(cfg, &mut r, t + 1);
                    let tag = if tag == "non_object" && cfg.starts_with("inject") { String::from("non_object_inject") } else { tag };
                    let a = cls == "valid" && answerable(cfg, &q);
                    batch.push(json!({"tag": tag, "cls": cls, "n": nexp, "answerable": a, "q": q}));
                }
            }
            scenarios.push(json!({"cfg": cfg, "batch": batch}));
        }
    }
    // run the children 12 at a time
    let results: Vec<Value> = {
        use rayon::prelude::*;
        let pool = rayon::ThreadPoolBuilder::new().num_threads(12).build().unwrap();
        pool.install(|| {
            scenarios
                .par_iter()
                .enumerate()
                .map(|(i, s)| {
                    let p = dir.join(format!("robust-scn-{}.json", i));
                    std::fs::write(&p, s.to_string()).unwrap();
                    let v = run_child(&exe, &p, timeout);
                    let _ = std::fs::remove_file(&p);
                    v
                })
                .collect()
        })
    };
    for (s, mut o) in scenarios.iter().zip(results.into_iter()) {
        out.scenario(s);
        let mut entries: Vec<Value> = s["batch"].as_array().unwrap().iter().map(|b| json!({"cls": b["cls"], "n": b["n"], "answerable": b["answerable"], "tag": b["tag"]})).collect();
        if s["empty"].as_bool().unwrap_or(false) {
            entries = vec![json!({"cls": "any", "n": 0, "answerable": false, "tag": "empty_batch"})];
        }
        out.event(json!({"ev": "Submit", "cfg": s["cfg"], "batch": entries}));
        o["ev"] = json!("Outcome");
        if o.get("resp").is_none() {
            o["resp"] = json!([]);
        }
        out.event(o);
    }
    out.flush();
    0
}
