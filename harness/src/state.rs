//! C11 (state model part): the real StateModel through new / extend / initial_state / get / set / add.
use crate::units::sci;
use crate::util::*;
use rand::rngs::StdRng;
use rand::Rng;
use routee_compass_core::model::state::custom_feature_format::CustomFeatureFormat;
use routee_compass_core::model::state::state_feature::StateFeature;
use routee_compass_core::model::state::state_model::StateModel;
use routee_compass_core::model::traversal::state::state_variable::StateVar;
use routee_compass_core::model::unit::{as_f64::AsF64, Distance, DistanceUnit, Energy, EnergyUnit, Time, TimeUnit};
use serde_json::{json, Value};

fn du(s: &str) -> DistanceUnit { serde_json::from_value(json!(s)).unwrap() }
fn tu(s: &str) -> TimeUnit { serde_json::from_value(json!(s)).unwrap() }
fn eu(s: &str) -> EnergyUnit { serde_json::from_value(json!(s)).unwrap() }

fn feature(f: &Value) -> (String, StateFeature) {
    let name = f["name"].as_str().unwrap().to_string();
    let init = f["init"].as_f64().unwrap();
    let unit = f["unit"].as_str().unwrap();
    let sf = match f["kind"].as_str().unwrap() {
        "distance" => StateFeature::Distance { distance_unit: du(unit), initial: Distance::new(init) },
        "time" => StateFeature::Time { time_unit: tu(unit), initial: Time::new(init) },
        "energy" => StateFeature::Energy { energy_unit: eu(unit), initial: Energy::new(init) },
        _ => StateFeature::Custom { r#type: f["ctype"].as_str().unwrap().to_string(), unit: String::from("u"), format: CustomFeatureFormat::FloatingPoint { initial: init.into() } },
    };
    (name, sf)
}
fn feats_ev(fs: &[Value]) -> Vec<Value> {
    fs.iter().map(|f| { let mut g = f.clone(); g["init"] = sci(f["init"].as_f64().unwrap()); g }).collect()
}

fn observers(sm: &StateModel) -> Value {
    let names: Vec<String> = sm.iter().map(|(n, _)| n.clone()).collect();
    let ser = sm.serialize_state_model();
    // slot index reported for each name, in iteration order
    let index: Vec<i64> = names.iter().map(|n| ser[n]["index"].as_i64().unwrap_or(-1)).collect();
    // which name owns slot i according to to_vec / indexed_iter
    let vecnames: Vec<String> = sm.indexed_iter().map(|(_, (n, _))| n.clone()).collect();
    let contains = names.iter().all(|n| sm.contains_key(n)) && !sm.contains_key(&String::from("no-such-feature"));
    json!({"len": sm.len(), "names": names, "index": index, "vecnames": vecnames, "contains": contains})
}

fn run_scenario(out: &mut Out, scn: &Value, r: &mut StdRng) {
    out.scenario(scn);
    let base: Vec<Value> = scn["base"].as_array().unwrap().clone();
    let mut sm = StateModel::new(base.iter().map(feature).collect());
    out.event(json!({"ev": "SMNew", "feats": feats_ev(&base), "obs": observers(&sm)}));
    for ext in scn["extends"].as_array().unwrap() {
        let es: Vec<Value> = ext.as_array().unwrap().clone();
        match sm.extend(es.iter().map(feature).collect()) {
            Ok(next) => {
                out.event(json!({"ev": "SMExtend", "feats": feats_ev(&es), "ok": true, "obs": observers(&next)}));
                sm = next;
            }
            Err(_) => out.event(json!({"ev": "SMExtend", "feats": feats_ev(&es), "ok": false, "obs": {}})),
        }
    }
    let mut state: Vec<StateVar> = match sm.initial_state() {
        Ok(s) => s,
        Err(e) => {
            out.event(json!({"ev": "SMInitError", "msg": e.to_string()}));
            return;
        }
    };
    let raw = |s: &[StateVar]| -> Vec<Value> { s.iter().map(|x| sci(x.0)).collect() };
    out.event(json!({"ev": "SMInit", "vec": raw(&state)}));
    let feats: Vec<(String, StateFeature)> = sm.iter().map(|(n, f)| (n.clone(), f.clone())).collect();
    if feats.is_empty() {
        return;
    }
    for _ in 0..scn["ops"].as_u64().unwrap_or(6) {
        let (name, f) = &feats[r.gen_range(0..feats.len())];
        let (kind, units): (&str, Vec<&str>) = match f {
            StateFeature::Distance { .. } => ("distance", vec!["meters", "kilometers", "miles", "feet", "inches"]),
            StateFeature::Time { .. } => ("time", vec!["seconds", "minutes", "hours", "milliseconds"]),
            StateFeature::Energy { .. } => ("energy", vec!["kilowatt_hours"]),
            _ => ("custom", vec!["u"]),
        };
        let unit = units[r.gen_range(0..units.len())];
        let unit = if kind == "energy" { f.get_energy_unit().map(|u| serde_json::to_string(&u).unwrap().replace('"', "")).unwrap_or_default() } else { unit.to_string() };
        let get = |st: &[StateVar]| -> Result<f64, String> {
            match kind {
                "distance" => sm.get_distance(st, name, &du(&unit)).map(|x| x.as_f64()).map_err(|e| e.to_string()),
                "time" => sm.get_time(st, name, &tu(&unit)).map(|x| x.as_f64()).map_err(|e| e.to_string()),
                "energy" => sm.get_energy(st, name, &eu(&unit)).map(|x| x.as_f64()).map_err(|e| e.to_string()),
                _ => sm.get_custom_f64(st, name).map_err(|e| e.to_string()),
            }
        };
        if r.gen_bool(0.3) {
            let v = get(&state);
            out.event(json!({"ev": "SMGet", "name": name, "unit": unit, "ok": v.is_ok(), "val": sci(v.unwrap_or(0.0))}));
        } else {
            let op = if kind != "custom" && r.gen_bool(0.6) { "add" } else { "set" };
            let val: f64 = (r.gen_range(0.5..900.0f64) * 100.0).round() / 100.0;
            let before = state.clone();
            let res = match (kind, op) {
                ("distance", "add") => sm.add_distance(&mut state, name, &Distance::new(val), &du(&unit)),
                ("distance", _) => sm.set_distance(&mut state, name, &Distance::new(val), &du(&unit)),
                ("time", "add") => sm.add_time(&mut state, name, &Time::new(val), &tu(&unit)),
                ("time", _) => sm.set_time(&mut state, name, &Time::new(val), &tu(&unit)),
                ("energy", "add") => sm.add_energy(&mut state, name, &Energy::new(val), &eu(&unit)),
                ("energy", _) => sm.set_energy(&mut state, name, &Energy::new(val), &eu(&unit)),
                _ => sm.set_custom_f64(&mut state, name, &val),
            };
            let same: Vec<bool> = before.iter().zip(state.iter()).map(|(a, b)| a.0.to_bits() == b.0.to_bits()).collect();
            out.event(json!({"ev": "SMSet", "op": op, "name": name, "unit": unit, "val": sci(val), "ok": res.is_ok() && before.len() == state.len(),
                             "same": same, "vec": raw(&state), "back": sci(get(&state).unwrap_or(f64::NAN))}));
        }
    }
}

fn gen(r: &mut StdRng) -> Value {
    let names = ["distance", "time", "energy_liquid", "energy_electric", "battery_state", "trip_count", "f7", "f8", "f9", "f10"];
    let mk = |r: &mut StdRng, name: &str, kind: Option<&str>| -> Value {
        let kind = kind.unwrap_or(["distance", "time", "energy", "custom"][r.gen_range(0..4)]);
        let unit = match kind {
            "distance" => ["meters", "kilometers", "miles", "feet"][r.gen_range(0..4)],
            "time" => ["seconds", "minutes", "hours", "milliseconds"][r.gen_range(0..4)],
            "energy" => ["kilowatt_hours", "gallons_gasoline", "gallons_diesel"][r.gen_range(0..3)],
            _ => "u",
        };
        let ctype = if kind == "custom" { ["soc", "count"][r.gen_range(0..2)] } else { "" };
        json!({"name": name, "kind": kind, "unit": unit, "ctype": ctype, "init": if r.gen_bool(0.5) { 0.0 } else { (r.gen_range(0.0..500.0f64) * 10.0).round() / 10.0 }})
    };
    let n0 = r.gen_range(0..=10);
    let mut pool: Vec<&str> = names.to_vec();
    for i in (1..pool.len()).rev() { pool.swap(i, r.gen_range(0..=i)); }
    let base: Vec<Value> = (0..n0).map(|i| mk(r, pool[i], None)).collect();
    let mut extends = vec![];
    for _ in 0..r.gen_range(0..=3) {
        let mut es = vec![];
        for _ in 0..r.gen_range(1..=3) {
            let nm = pool[r.gen_range(0..pool.len())];
            // mostly type-compatible with an existing feature of that name
            let existing = base.iter().find(|f| f["name"] == nm).and_then(|f| f["kind"].as_str().map(|s| s.to_string()));
            let kind = match existing { Some(k) if r.gen_bool(0.8) => Some(k), _ => None };
            let mut f = mk(r, nm, kind.as_deref());
            if let Some(b) = base.iter().find(|f| f["name"] == nm) { if f["kind"] == "custom" && r.gen_bool(0.8) { f["ctype"] = b["ctype"].clone(); } }
            es.push(f);
        }
        extends.push(json!(es));
    }
    json!({"base": base, "extends": extends, "ops": r.gen_range(3..=10)})
}

/// application level: the state model of the search instance the application builds for a query - features declared in
/// the [state] section, contributed by the traversal (speed table: distance, time) and access (turn delay: time) models,
/// and re-declared by the query (`state_features`: other units / initial values).  Precedence: query > models > config.
fn run_app_scenario(out: &mut Out, scn: &Value, tag: usize) {
    use crate::app::*;
    out.scenario(scn);
    let net = json!({"nv": 3, "xy": [[0, 0], [1, 0], [2, 1]], "E": [[1, 2, 200, 10], [2, 3, 300, 10], [1, 3, 900, 5]]});
    let dir = crate::search::scratch_dir();
    std::fs::write(dir.join("sm-headings.csv"), "arrival_heading,departure_heading\n0,0\n10,10\n90,90\n").unwrap();
    // [state] section
    let mut st = String::from("[state]\n");
    for f in scn["config"].as_array().unwrap() {
        let unit_key = match f["kind"].as_str().unwrap() { "distance" => "distance_unit", "time" => "time_unit", _ => "energy_unit" };
        st.push_str(&format!("{} = {{ type = \"{}\", {} = \"{}\", initial = {:?} }}\n", f["name"].as_str().unwrap(), f["kind"].as_str().unwrap(),
                             unit_key, f["unit"].as_str().unwrap(), f["init"].as_f64().unwrap()));
    }
    let (tdu, ttu) = (scn["trav_du"].as_str().unwrap(), scn["trav_tu"].as_str().unwrap());
    let mut opts = json!({
        "traversal_toml": format!("[traversal]\ntype = \"speed_table\"\nspeed_table_input_file = \"$SPEEDS\"\nspeed_unit = \"meters_per_second\"\ndistance_unit = \"{}\"\ntime_unit = \"{}\"\n", tdu, ttu),
    });
    if !scn["config"].as_array().unwrap().is_empty() {
        opts["state_toml"] = json!(st);
    }
    let files = write_app(&net, &opts, &format!("sm{}", tag % 8));
    let app = match build_app(&files) {
        Ok(a) => a,
        Err(e) => {
            out.event(json!({"ev": "SMAppBuildError", "msg": e}));
            return;
        }
    };
    let mut query = json!({"origin_vertex": 0, "destination_vertex": 2});
    let mut sf = serde_json::Map::new();
    for f in scn["query"].as_array().unwrap() {
        let unit_key = match f["kind"].as_str().unwrap() { "distance" => "distance_unit", "time" => "time_unit", _ => "energy_unit" };
        sf.insert(f["name"].as_str().unwrap().to_string(), json!({"type": f["kind"], unit_key: f["unit"], "initial": f["init"]}));
    }
    if !sf.is_empty() {
        query["state_features"] = Value::Object(sf);
    }
    // expected features: config, overwritten by the models' (in the traversal model's units, starting at zero), overwritten by the query's
    let mut expect: Vec<Value> = scn["config"].as_array().unwrap().clone();
    for m in [json!({"name": "distance", "kind": "distance", "unit": tdu, "init": 0.0}), json!({"name": "time", "kind": "time", "unit": ttu, "init": 0.0})]
        .into_iter()
        .chain(scn["query"].as_array().unwrap().iter().cloned())
    {
        match expect.iter_mut().find(|e| e["name"] == m["name"]) {
            Some(e) => *e = m,
            None => expect.push(m),
        }
    }
    match app.search_app.build_search_instance(&query) {
        Err(e) => out.event(json!({"ev": "SMApp", "ok": false, "msg": e.to_string(), "expect": feats_ev(&expect), "obs": {}, "units": [], "vec": []})),
        Ok(si) => {
            let sm = &si.state_model;
            let ser = sm.serialize_state_model();
            let units: Vec<Value> = sm.iter().map(|(n, _)| ser[n].get("distance_unit").or_else(|| ser[n].get("time_unit")).or_else(|| ser[n].get("energy_unit")).cloned().unwrap_or(json!("?"))).collect();
            let vec: Vec<Value> = sm.initial_state().map(|s| s.iter().map(|x| sci(x.0)).collect()).unwrap_or_default();
            out.event(json!({"ev": "SMApp", "ok": true, "expect": feats_ev(&expect), "obs": observers(sm), "units": units, "vec": vec}));
        }
    }
}

fn gen_app(r: &mut StdRng) -> Value {
    let dus = ["meters", "kilometers", "miles", "feet"];
    let tus = ["seconds", "minutes", "hours", "milliseconds"];
    let val = |r: &mut StdRng| if r.gen_bool(0.4) { 0.0 } else { (r.gen_range(0.0..500.0f64) * 10.0).round() / 10.0 };
    let mut config = vec![];
    for name in ["extra_distance", "extra_time", "distance", "time", "energy_budget"] {
        if r.gen_bool(0.3) {
            let kind = if name.contains("distance") { "distance" } else if name.contains("time") { "time" } else { "energy" };
            let unit = match kind { "distance" => dus[r.gen_range(0..4)], "time" => tus[r.gen_range(0..4)], _ => "kilowatt_hours" };
            config.push(json!({"name": name, "kind": kind, "unit": unit, "ctype": "", "init": val(r)}));
        }
    }
    let mut query = vec![];
    for (name, kind) in [("distance", "distance"), ("time", "time")] {
        if r.gen_bool(0.6) {
            let unit = if kind == "distance" { dus[r.gen_range(0..4)] } else { tus[r.gen_range(0..4)] };
            query.push(json!({"name": name, "kind": kind, "unit": unit, "ctype": "", "init": val(r)}));
        }
    }
    json!({"app": true, "config": config, "query": query, "trav_du": dus[r.gen_range(0..3)], "trav_tu": tus[r.gen_range(0..4)]})
}

/// typed custom features (signed / unsigned integer, boolean, floating point): one model holding one feature of each
/// format among ordinary ones; the initial values are read back through the typed getters, values are written through
/// the typed setters and read back, getters / setters of another type must refuse, other slots must stay as they were
fn run_codec(out: &mut Out, r: &mut StdRng) {
    let ints: [i64; 9] = [-3, -1, 0, 1, 7, -7, 250, -1000000, 123456];
    let pick = |r: &mut StdRng| ints[r.gen_range(0..ints.len())];
    let (si, ui, bi, fi) = (pick(r), pick(r).abs(), r.gen_bool(0.5), pick(r) as f64 / 4.0);
    let scn = json!({"check": "codec", "signed": si, "unsigned": ui, "bool": bi, "float": fi});
    out.scenario(&scn);
    let cf = |format: CustomFeatureFormat| StateFeature::Custom { r#type: String::from("t"), unit: String::from("u"), format };
    let mut feats = vec![
        (String::from("s"), cf(CustomFeatureFormat::SignedInteger { initial: si })),
        (String::from("u"), cf(CustomFeatureFormat::UnsignedInteger { initial: ui as u64 })),
        (String::from("b"), cf(CustomFeatureFormat::Boolean { initial: bi })),
        (String::from("f"), cf(CustomFeatureFormat::FloatingPoint { initial: fi.into() })),
        (String::from("d"), StateFeature::Distance { distance_unit: du("meters"), initial: Distance::new(5.0) }),
        (String::from("t"), StateFeature::Time { time_unit: tu("seconds"), initial: Time::new(6.0) }),
    ];
    for i in (1..feats.len()).rev() {
        feats.swap(i, r.gen_range(0..=i));
    }
    let sm = StateModel::new(feats);
    let mut state = match sm.initial_state() {
        Ok(s) => s,
        Err(e) => {
            out.event(json!({"ev": "SMInitError", "msg": e.to_string()}));
            return;
        }
    };
    let b2i = |b: bool| if b { 1 } else { 0 };
    let names = ["s", "u", "b", "f"].map(String::from);
    // (value read through the matching getter, every non-matching getter refuses)
    let read = |st: &[StateVar]| -> Value {
        let s_ = sm.get_custom_i64(st, &names[0]).map(|x| json!(x)).unwrap_or(json!("err"));
        let u_ = sm.get_custom_u64(st, &names[1]).map(|x| json!(x)).unwrap_or(json!("err"));
        let b_ = sm.get_custom_bool(st, &names[2]).map(|x| json!(b2i(x))).unwrap_or(json!("err"));
        let f_ = sm.get_custom_f64(st, &names[3]).map(|x| json!(scaled(x, 4.0))).unwrap_or(json!("err"));
        let refuse = sm.get_custom_f64(st, &names[0]).is_err() && sm.get_custom_u64(st, &names[0]).is_err() && sm.get_custom_bool(st, &names[0]).is_err()
            && sm.get_custom_i64(st, &names[1]).is_err() && sm.get_custom_f64(st, &names[1]).is_err()
            && sm.get_custom_i64(st, &names[2]).is_err() && sm.get_custom_u64(st, &names[2]).is_err()
            && sm.get_custom_i64(st, &names[3]).is_err() && sm.get_custom_bool(st, &names[3]).is_err();
        json!({"s": s_, "u": u_, "b": b_, "f4": f_, "refuse": refuse,
               "d": sm.get_distance(st, &String::from("d"), &du("meters")).map(|x| scaled(x.as_f64(), 1.0)).unwrap_or(-1),
               "t": sm.get_time(st, &String::from("t"), &tu("seconds")).map(|x| scaled(x.as_f64(), 1.0)).unwrap_or(-1)})
    };
    out.event(json!({"ev": "SMCodecInit", "s": si, "u": ui, "b": b2i(bi), "f4": scaled(fi, 4.0), "read": read(&state), "len": state.len()}));
    for _ in 0..6 {
        let which = r.gen_range(0..4);
        let v = pick(r);
        let (ok, wrong_refused) = match which {
            0 => (sm.set_custom_i64(&mut state, &names[0], &v).is_ok(),
                  sm.set_custom_f64(&mut state, &names[0], &1.5).is_err() && sm.set_custom_bool(&mut state, &names[0], &true).is_err()),
            1 => (sm.set_custom_u64(&mut state, &names[1], &(v.unsigned_abs())).is_ok(),
                  sm.set_custom_i64(&mut state, &names[1], &-2).is_err() && sm.set_custom_f64(&mut state, &names[1], &1.5).is_err()),
            2 => (sm.set_custom_bool(&mut state, &names[2], &(v % 2 != 0)).is_ok(),
                  sm.set_custom_i64(&mut state, &names[2], &-2).is_err() && sm.set_custom_u64(&mut state, &names[2], &2).is_err()),
            _ => (sm.set_custom_f64(&mut state, &names[3], &(v as f64 / 4.0)).is_ok(),
                  sm.set_custom_i64(&mut state, &names[3], &-2).is_err() && sm.set_custom_bool(&mut state, &names[3], &true).is_err()),
        };
        let val = match which { 0 => v, 1 => v.abs(), 2 => b2i(v % 2 != 0), _ => v };
        let wname = ["s", "u", "b", "f4"][which];
        out.event(json!({"ev": "SMCodecSet", "which": wname, "val": val, "ok": ok, "wrong_refused": wrong_refused, "read": read(&state), "len": state.len()}));
    }
}

pub fn main(args: &[String]) -> i32 {
    let mut out = Out::new();
    let n = arg_usize(args, "--random", 300);
    let mut r = rng(111);
    let mut r2 = rng(112);
    for _ in 0..n {
        let s = gen(&mut r);
        guarded(&mut out, |o| run_scenario(o, &s, &mut r2));
    }
    let mut r3 = rng(113);
    for i in 0..arg_usize(args, "--app", 0) {
        let s = gen_app(&mut r3);
        guarded(&mut out, |o| run_app_scenario(o, &s, i));
    }
    let mut r4 = rng(114);
    for _ in 0..(n / 3).max(20) {
        guarded(&mut out, |o| run_codec(o, &mut r4));
    }
    out.flush();
    0
}
