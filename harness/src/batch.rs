//! C06 / C19: (a) batches through the real CompassApp::run observed at its boundaries (each query
//! alone, the load-balanced bins, the returned responses, the file), (b) the real ResponseSink
//! hammered directly from many threads released by a barrier.
use crate::app::*;
use crate::search::{gen_scenario, scratch_dir, GenOpts};
use crate::util::*;
use rand::rngs::StdRng;
use rand::Rng;
use routee_compass::app::compass::compass_app::{apply_input_plugins, CompassApp};
use routee_compass::app::compass::compass_app_ops::apply_load_balancing_policy;
use routee_compass::app::compass::response::response_output_format::ResponseOutputFormat;
use routee_compass::app::compass::response::response_output_policy::ResponseOutputPolicy;
use serde_json::{json, Value};
use std::collections::HashMap;
use std::sync::{Arc, Barrier};

pub fn hash_str(s: &str) -> i64 {
    // FNV-1a folded to 30 bits (TLC integers are 32 bit)
    let mut h: u64 = 0xcbf29ce484222325;
    for b in s.as_bytes() {
        h ^= *b as u64;
        h = h.wrapping_mul(0x100000001b3);
    }
    ((h ^ (h >> 30) ^ (h >> 60)) & 0x3fff_ffff) as i64
}

/// JSON text with object keys sorted (maps inside error values have no stable order)
pub fn canonical(v: &Value) -> String {
    match v {
        Value::Object(m) => {
            let mut ks: Vec<&String> = m.keys().collect();
            ks.sort();
            format!("{{{}}}", ks.iter().map(|k| format!("{:?}:{}", k, canonical(&m[*k]))).collect::<Vec<_>>().join(","))
        }
        Value::Array(a) => format!("[{}]", a.iter().map(canonical).collect::<Vec<_>>().join(",")),
        other => other.to_string(),
    }
}

/// [cls, cost, d, t, eh]: success or error, route cost (sum over the path entries, milli-units),
/// final distance / time, hash of the error value (0 = none)
pub fn summary(resp: &Value) -> Value {
    let eh = match resp.get("error") {
        None => 0,
        Some(e) => 1 + hash_str(&canonical(e)),
    };
    let cls = if resp.get("error").is_some() { "error" } else { "ok" };
    let (mut cost, mut d, mut t) = (-1i64, -1i64, -1i64);
    if let Some(route) = resp.get("route").filter(|r| r.is_object()) {
        if let Some(path) = route["path"].as_array() {
            let c: f64 = path
                .iter()
                .map(|e| e["access_cost"].as_f64().unwrap_or(0.0) + e["traversal_cost"].as_f64().unwrap_or(0.0))
                .sum();
            cost = scaled(c, 1000.0);
        }
        d = scaled(route["traversal_summary"]["distance"].as_f64().unwrap_or(-1.0), 1.0);
        t = scaled(route["traversal_summary"]["time"].as_f64().unwrap_or(-1.0), 1.0);
    }
    json!([cls, cost, d, t, eh])
}

/// equality of JSON values up to the last bits of non-integral numbers (serde_json's default number parser is not the
/// exact inverse of its printer)
pub fn same_json(a: &Value, b: &Value) -> bool {
    match (a, b) {
        (Value::Number(x), Value::Number(y)) => {
            x == y || match (x.as_f64(), y.as_f64()) {
                (Some(p), Some(q)) => (p - q).abs() <= 1e-13 * p.abs().max(q.abs()),
                _ => false,
            }
        }
        (Value::Array(x), Value::Array(y)) => x.len() == y.len() && x.iter().zip(y.iter()).all(|(p, q)| same_json(p, q)),
        (Value::Object(x), Value::Object(y)) => x.len() == y.len() && x.iter().all(|(k, p)| y.get(k).map(|q| same_json(p, q)).unwrap_or(false)),
        _ => a == b,
    }
}

/// a second expanding input stage (registered after grid search in a third of the batches): a query that carries
/// `"dup": true` and has an even `destination_vertex` becomes two copies (`"copy": 1 | 2`); everything else passes
/// unchanged - so the stage expands some of the outputs of the grid stage and not others
pub struct DupEven {}
impl routee_compass::plugin::input::input_plugin::InputPlugin for DupEven {
    fn process(&self, input: &mut Value) -> Result<(), routee_compass::plugin::input::InputPluginError> {
        let even = input.get("destination_vertex").and_then(|d| d.as_i64()).map(|d| d % 2 == 0).unwrap_or(false);
        if input.get("dup").and_then(|d| d.as_bool()).unwrap_or(false) && even {
            let mut a = input.clone();
            let mut b = input.clone();
            a["copy"] = json!(1);
            b["copy"] = json!(2);
            *input = Value::Array(vec![a, b]);
        }
        Ok(())
    }
}

/// which expansion of its query a request is: its place in the enumeration "grid list in order, copies of one
/// destination next to each other"
fn ordinal(query: &Value, request: &Value) -> usize {
    let dup = query.get("dup").and_then(|d| d.as_bool()).unwrap_or(false);
    let copies = |d: &Value| if dup && d.as_i64().map(|x| x % 2 == 0).unwrap_or(false) { 2 } else { 1 };
    let copy = request.get("copy").and_then(|c| c.as_u64()).unwrap_or(1) as usize;
    match query["grid_search"]["destination_vertex"].as_array() {
        Some(list) => match list.iter().position(|d| Some(d) == request.get("destination_vertex")) {
            Some(p) => list[..p].iter().map(copies).sum::<usize>() + copy,
            None => 0,
        },
        None => copy,
    }
}

/// the request echoed by a response must carry every field of the query it answers (minus the grid section)
fn echoes(query: &Value, request: &Value) -> bool {
    match (query.as_object(), request.as_object()) {
        (Some(q), Some(r)) => q.iter().all(|(k, v)| k == "grid_search" || r.get(k) == Some(v)),
        _ => query == request,
    }
}

pub fn item_of(queries: &HashMap<i64, Value>, resp: &Value) -> Value {
    let req = resp.get("request").cloned().unwrap_or(Value::Null);
    let qid = req.get("qid").and_then(|q| q.as_i64()).unwrap_or(-1);
    let (j, echo) = match queries.get(&qid) {
        Some(q) => (if resp.get("error").is_some() && q.get("perr").is_some() { 0 } else { ordinal(q, &req) }, echoes(q, &req)),
        None => (0, false),
    };
    let s = summary(resp);
    json!({"qid": qid, "j": j, "echo": echo, "sum": s})
}

pub const CSV_TOML: &str = "format = { type = \"csv\", sorted = $SORTED, mapping = { qid = \"request.qid\", dist = \"route.traversal_summary.distance\", time = \"route.traversal_summary.time\", err = { optional = \"error\" }, tot = { sum = [\"route.traversal_summary.distance\", \"route.traversal_summary.time\"] } } }";

fn gen_batch(r: &mut StdRng, n: usize) -> Value {
    let mut net = gen_scenario(r, &GenOpts { max_v: 8, focus: String::from("c06") });
    // the application harness only needs the topology
    let nv = net["nv"].as_u64().unwrap() as i64;
    let par = r.gen_range(1..=8);
    let nq = if r.gen_bool(0.3) { par * r.gen_range(1..=3) + r.gen_range(0..=1) } else { r.gen_range(1..=n.max(2)) };
    let mut queries = vec![];
    let energy = r.gen_bool(0.3);
    // degenerate mixes: a batch in which every query is rejected by the input stage (nothing reaches the search), or
    // every query fails in the search
    let uniform = match r.gen_range(0..12) {
        0 => Some(2),
        1 => Some(1),
        _ => None,
    };
    for qid in 1..=nq {
        let o = r.gen_range(0..nv);
        let d = r.gen_range(0..nv);
        let mut q = match uniform.unwrap_or_else(|| r.gen_range(0..10)) {
            0 => json!({"qid": qid, "origin_vertex": o}),                                   // tree search
            1 => json!({"qid": qid, "origin_vertex": nv + 50, "destination_vertex": d}),    // fails in search
            2 => json!({"qid": qid, "perr": true, "origin_vertex": o, "destination_vertex": d,
                        "grid_search": {"a": [{"grid_search": 1}]}}),                       // fails in the input plugin
            3 | 4 => {
                let mut ds: Vec<i64> = (0..nv).collect();
                for i in (1..ds.len()).rev() {
                    ds.swap(i, r.gen_range(0..=i));
                }
                ds.truncate(r.gen_range(1..=3.min(nv as usize)));
                json!({"qid": qid, "origin_vertex": o, "grid_search": {"destination_vertex": ds}})
            }
            5 => json!({"qid": qid, "destination_vertex": d}),                              // missing origin
            _ => json!({"qid": qid, "origin_vertex": o, "destination_vertex": d}),
        };
        if r.gen_bool(0.4) {
            q["query_weight_estimate"] = json!(r.gen_range(1..=9));
        } else if r.gen_bool(0.08) {
            q["query_weight_estimate"] = json!("heavy"); // not a number: the balancer falls back to its default weight
        }
        if energy {
            q["model_name"] = json!("camry");
        }
        queries.push(q);
    }
    let sink = ["none", "json", "json", "csv"][r.gen_range(0..4)];
    let flush = [1, 1, 3, 1000][r.gen_range(0..4)];
    net["check"] = json!("batch");
    json!({"net": net, "par": par, "run_par": if r.gen_bool(0.3) { json!(r.gen_range(1..=8)) } else { Value::Null },
           "keep": r.gen_bool(0.6), "sink": sink, "sorted": r.gen_bool(0.5),
           "flush": flush, "queries": queries, "reps": 2, "energy": energy})
}

pub fn read_lines(path: &std::path::Path) -> Vec<String> {
    std::fs::read_to_string(path).map(|s| s.split_terminator('\n').map(|l| l.to_string()).collect()).unwrap_or_default()
}

fn run_app_scenario(out: &mut Out, scn: &Value, tag: usize) {
    out.scenario(scn);
    let dir = scratch_dir();
    let sink = scn["sink"].as_str().unwrap_or("none");
    let outfile = dir.join(format!("out-{}.txt", tag));
    let _ = std::fs::remove_file(&outfile);
    let policy_toml = match sink {
        "none" => String::new(),
        "json" => format!(
            "[response_output_policy]\ntype = \"file\"\nfilename = \"{}\"\nfile_flush_rate = {}\nformat = {{ type = \"json\", newline_delimited = true }}\n",
            outfile.to_str().unwrap(), scn["flush"]
        ),
        _ => format!(
            "[response_output_policy]\ntype = \"file\"\nfilename = \"{}\"\nfile_flush_rate = {}\n{}\n",
            outfile.to_str().unwrap(), scn["flush"],
            CSV_TOML.replace("$SORTED", if scn["sorted"].as_bool().unwrap_or(false) { "true" } else { "false" })
        ),
    };
    // a quarter of the batches: the load-balancer input plugin after grid search, weights from a numeric column (a
    // query without it fails in the plugin) or from a categorical column with a default
    let nq0 = scn["queries"].as_array().map(|a| a.len()).unwrap_or(0);
    let lb = scn.get("lb").and_then(|l| l.as_str()).map(|l| l.to_string()).unwrap_or_else(|| {
        if (nq0 * 7 + scn["par"].as_u64().unwrap_or(1) as usize) % 4 != 0 { String::from("none") } else if nq0 % 2 == 0 { String::from("numeric") } else { String::from("categorical") }
    });
    let input_plugins = match lb.as_str() {
        "numeric" => "{ type = \"grid_search\" }, { type = \"load_balancer\", weight_heuristic = { type = \"custom\", custom_weight_type = { type = \"numeric\", column_name = \"w\" } } }",
        "categorical" => "{ type = \"grid_search\" }, { type = \"load_balancer\", weight_heuristic = { type = \"custom\", custom_weight_type = { type = \"categorical\", column_name = \"size\", default = 2.0, mapping = { big = 9.0, small = 1.0 } } } }",
        _ => "{ type = \"grid_search\" }",
    };
    let mut opts = json!({
        "parallelism": scn["par"],
        "persistence": if scn["keep"].as_bool().unwrap_or(true) { "persist_response_in_memory" } else { "discard_response_from_memory" },
        "response_output_policy_toml": policy_toml,
        "input_plugins_toml": input_plugins,
    });
    if scn["energy"].as_bool().unwrap_or(false) {
        // state shared between queries: the vehicle's prediction cache lives in the application's service
        opts["traversal_toml"] = json!(ENERGY_TRAVERSAL_TOML);
        opts["cost_toml"] = json!(ENERGY_COST_TOML);
    }
    let files = write_app(&scn["net"], &opts, &format!("b{}", tag));
    let mut app: CompassApp = match build_app(&files) {
        Ok(a) => a,
        Err(e) => {
            out.event(json!({"ev": "BuildError", "msg": e}));
            return;
        }
    };
    let mut queries: Vec<Value> = scn["queries"].as_array().unwrap().clone();
    // a third of the batches: a second expanding input stage after grid search
    let dup = scn.get("dup").and_then(|d| d.as_bool()).unwrap_or((queries.len() + scn["par"].as_u64().unwrap_or(1) as usize) % 3 == 0);
    if dup {
        app.input_plugins.push(Arc::new(DupEven {}));
        for q in queries.iter_mut() {
            q["dup"] = json!(true);
        }
    }
    for (i, q) in queries.iter_mut().enumerate() {
        if lb != "none" {
            // the plugin writes the estimate itself (it legitimately replaces one the user gave)
            q.as_object_mut().unwrap().remove("query_weight_estimate");
        }
        match lb.as_str() {
            "numeric" if i % 5 == 4 => q["perr"] = json!(true),       // no weight column: rejected by the plugin
            "numeric" => q["w"] = json!((i % 9) as f64 + 0.5),
            "categorical" if i % 7 == 6 => q["perr"] = json!(true),    // no category column: rejected by the plugin (the default only covers unknown categories)
            "categorical" => q["size"] = json!(["big", "small", "medium"][i % 3]),
            _ => {}
        }
    }
    let qmap: HashMap<i64, Value> = queries.iter().map(|q| (q["qid"].as_i64().unwrap(), q.clone())).collect();
    // 1. every query alone (same kind of sink, writing to another file; responses kept)
    let alone_file = dir.join(format!("alone-{}.txt", tag));
    let alone_policy = match sink {
        "none" => json!({"type": "none"}),
        "json" => json!({"type": "file", "filename": alone_file.to_str().unwrap(), "format": {"type": "json", "newline_delimited": true}}),
        _ => json!({"type": "file", "filename": alone_file.to_str().unwrap(),
                    "format": {"type": "csv", "sorted": scn["sorted"], "mapping": {"qid": "request.qid",
                        "dist": "route.traversal_summary.distance", "time": "route.traversal_summary.time",
                        "err": {"optional": "error"},
                        "tot": {"sum": ["route.traversal_summary.distance", "route.traversal_summary.time"]}}}}),
    };
    let alone_cfg = json!({"parallelism": 1, "response_persistence_policy": "persist_response_in_memory", "response_output_policy": alone_policy});
    for q in &queries {
        // with state shared between queries (the energy model's prediction cache) "alone" means alone in an application
        // that has served nothing else: a fresh one per query
        let fresh = if scn["energy"].as_bool().unwrap_or(false) {
            build_app(&files).ok().map(|mut a| {
                if dup {
                    a.input_plugins.push(Arc::new(DupEven {}));
                }
                a
            })
        } else {
            None
        };
        let r = fresh.as_ref().unwrap_or(&app).run(vec![q.clone()], Some(&alone_cfg));
        let items: Vec<Value> = match &r {
            Ok(rs) => rs.iter().map(|x| item_of(&qmap, x)).collect(),
            Err(_) => vec![],
        };
        out.event(json!({"ev": "Alone", "qid": q["qid"], "ok": r.is_ok(), "items": items}));
    }
    // 2. the load-balanced bins for this batch and parallelism (public stage functions)
    let par = scn["run_par"].as_u64().unwrap_or(scn["par"].as_u64().unwrap()) as usize;
    let mut processed: Vec<Value> = vec![];
    for q in &queries {
        if let Ok(mut v) = apply_input_plugins(q, &app.input_plugins) {
            processed.append(&mut v);
        }
    }
    let bins_ev = match apply_load_balancing_policy(&processed, par, 1.0) {
        Ok(bins) => json!({"ev": "Balanced", "ok": true, "par": par,
            "bins": bins.iter().map(|b| b.iter().map(|q| json!([q["qid"], ordinal(&qmap[&q["qid"].as_i64().unwrap()], q)])).collect::<Vec<_>>()).collect::<Vec<_>>()}),
        Err(e) => json!({"ev": "Balanced", "ok": false, "par": par, "bins": [], "msg": e.to_string()}),
    };
    out.event(bins_ev);
    // 3. the batch itself, `reps` times on the same app (the file is appended to)
    let mut run_cfg = json!({});
    if let Some(p) = scn["run_par"].as_u64() {
        run_cfg["parallelism"] = json!(p);
    }
    for rep in 0..scn["reps"].as_u64().unwrap_or(1) {
        let before = read_lines(&outfile).len();
        out.event(json!({"ev": "RunStart", "rep": rep, "par": par, "keep": scn["keep"], "sink": sink != "none", "fmt": sink,
                         "qids": queries.iter().map(|q| q["qid"].clone()).collect::<Vec<_>>(), "lines_before": before}));
        let r = app.run(queries.clone(), Some(&run_cfg));
        match &r {
            Err(e) => out.event(json!({"ev": "Returned", "ok": false, "items": [], "msg": e.to_string()})),
            Ok(rs) => out.event(json!({"ev": "Returned", "ok": true, "items": rs.iter().map(|x| item_of(&qmap, x)).collect::<Vec<_>>()})),
        }
        // the file: new lines of this run
        let lines = read_lines(&outfile);
        let mut recs = vec![];
        let mut headers = 0;
        let header: Vec<String> = if sink == "csv" && !lines.is_empty() { lines[0].split(',').map(|s| s.to_string()).collect() } else { vec![] };
        for (i, line) in lines.iter().enumerate() {
            if sink == "csv" && *line == lines[0] {
                headers += 1;
                if i != 0 {
                    recs.push(json!({"qid": -1, "j": 0, "echo": false, "intact": false, "sum": ["header-again", 0, 0, 0, 0]}));
                }
                continue;
            }
            if i < before {
                continue;
            }
            if sink == "json" {
                match serde_json::from_str::<Value>(line) {
                    Ok(v) => {
                        let mut it = item_of(&qmap, &v);
                        // a JSON record must parse back to the very response that was returned (when responses are kept)
                        let same = match &r {
                            Ok(rs) if scn["keep"].as_bool().unwrap_or(true) => rs.iter().any(|x| same_json(x, &v)),
                            _ => true,
                        };
                        it["intact"] = json!(same);
                        recs.push(it);
                    }
                    Err(_) => recs.push(json!({"qid": -1, "j": 0, "echo": false, "intact": false, "sum": ["unparsable", 0, 0, 0, 0]})),
                }
            } else {
                // CSV: cells in header order -> by name
                let cells: Vec<&str> = line.splitn(header.len().max(1), ',').collect();
                let get = |name: &str| -> String {
                    header.iter().position(|h| h == name).and_then(|p| cells.get(p)).map(|s| s.to_string()).unwrap_or_default()
                };
                let num = |s: String| -> i64 { s.parse::<f64>().map(|x| scaled(x, 1.0)).unwrap_or(-1) };
                recs.push(json!({"qid": get("qid").parse::<i64>().unwrap_or(-1), "ncells": cells.len(), "ncols": header.len(),
                                 "dist": num(get("dist")), "time": num(get("time")), "tot": num(get("tot")),
                                 "has_err": !get("err").is_empty() && get("err") != "null", "intact": cells.len() == header.len()}));
            }
        }
        out.event(json!({"ev": "File", "fmt": sink, "recs": recs, "headers": headers, "sorted_header": header.windows(2).all(|w| w[0] <= w[1]),
                         "sorted": scn["sorted"], "nlines": lines.len()}));
        out.event(json!({"ev": "RunEnd", "rep": rep}));
    }
}

// ---------------------------------------------------------------------------------------------
// (b) direct multi-threaded driver of the real sink
fn run_sink_scenario(out: &mut Out, scn: &Value, tag: usize) {
    out.scenario(scn);
    let dir = scratch_dir();
    let path = dir.join(format!("sink-{}.txt", tag));
    let _ = std::fs::remove_file(&path);
    let nthreads = scn["threads"].as_u64().unwrap() as usize;
    let rows = scn["rows"].as_u64().unwrap() as usize;
    let fmt = scn["fmt"].as_str().unwrap_or("json");
    let format: ResponseOutputFormat = if fmt == "json" {
        serde_json::from_value(json!({"type": "json", "newline_delimited": true})).unwrap()
    } else {
        serde_json::from_value(json!({"type": "csv", "sorted": scn["sorted"], "mapping": {"Rid": "rid", "len": "len", "Pad": "pad", "grp": "grp",
            "Tot": {"sum": ["rid", {"optional": "len"}, "grp", {"optional": {"sum": ["len", "len"]}}]}}})).unwrap()   // column names of mixed case: header and rows must still agree
    };
    let policy = ResponseOutputPolicy::File {
        filename: path.to_str().unwrap().to_string(),
        format,
        file_flush_rate: Some(scn["flush"].as_i64().unwrap_or(1)),
    };
    // every other scenario writes through a combined policy: the checked file first, a second file in the other format after it
    let policy = if scn["combined"].as_bool().unwrap_or(false) {
        let other: ResponseOutputFormat = if fmt == "json" {
            serde_json::from_value(json!({"type": "csv", "sorted": false, "mapping": {"Rid": "rid"}})).unwrap()
        } else {
            serde_json::from_value(json!({"type": "json", "newline_delimited": true})).unwrap()
        };
        let p2 = dir.join(format!("sink-second-{}.txt", tag));
        let _ = std::fs::remove_file(&p2);
        ResponseOutputPolicy::Combined {
            policies: vec![Box::new(policy), Box::new(ResponseOutputPolicy::File { filename: p2.to_str().unwrap().to_string(), format: other, file_flush_rate: Some(1) })],
        }
    } else {
        policy
    };
    let mut next_rid = 1i64;
    for rep in 0..scn["reps"].as_u64().unwrap_or(1) {
        let sink = Arc::new(policy.build().unwrap());
        let before = read_lines(&path).len();
        // rows of very different sizes; each producer's rows are distinguishable
        let mut plan: Vec<Vec<(i64, usize)>> = vec![];
        let mut rr = rng(1000 + tag as u64 + rep);
        for _ in 0..nthreads {
            let mut v = vec![];
            for _ in 0..rows {
                let len = match rr.gen_range(0..10) {
                    0 => rr.gen_range(100_000..600_000),
                    1 | 2 => rr.gen_range(5_000..20_000),
                    _ => rr.gen_range(0..200),
                };
                v.push((next_rid, len));
                next_rid += 1;
            }
            plan.push(v);
        }
        let expected: HashMap<i64, String> = plan
            .iter()
            .flatten()
            .map(|(rid, len)| {
                let mut v = json!({"rid": rid, "len": len, "pad": "x".repeat(*len), "grp": if rid % 5 == 0 { Value::Null } else { json!(rid * 2) }});
                if rid % 3 == 0 {
                    v["error"] = json!(format!("no path exists between vertices {} and {}", rid, len));
                    if rid % 2 == 0 {
                        v.as_object_mut().unwrap().remove("len");
                        v["len_missing"] = json!(true);
                    }
                }
                (*rid, if fmt == "json" { serde_json::to_string(&v).unwrap() } else { String::new() })
            })
            .collect();
        out.event(json!({"ev": "SinkStart", "rep": rep, "fmt": fmt, "lines_before": before,
                         "threads": plan.iter().map(|t| t.iter().map(|(rid, _)| *rid).collect::<Vec<_>>()).collect::<Vec<_>>()}));
        let barrier = Arc::new(Barrier::new(nthreads));
        let handles: Vec<_> = plan
            .iter()
            .cloned()
            .map(|mine| {
                let sink = sink.clone();
                let barrier = barrier.clone();
                std::thread::spawn(move || {
                    barrier.wait();
                    let mut oks = 0;
                    let mut touched: Vec<i64> = vec![];
                    for (rid, len) in mine {
                        // "grp" is present in every response and holds an explicit null in every fifth one
                        let mut resp = json!({"rid": rid, "len": len, "pad": "x".repeat(len), "grp": if rid % 5 == 0 { Value::Null } else { json!(rid * 2) }});
                        if rid % 3 == 0 {
                            // a response that already reports an error (and lacks a mapped field under CSV)
                            resp["error"] = json!(format!("no path exists between vertices {} and {}", rid, len));
                            if rid % 2 == 0 {
                                resp.as_object_mut().unwrap().remove("len");
                                resp["len_missing"] = json!(true);
                            }
                        }
                        let before = resp.clone();
                        if sink.write_response(&mut resp).is_ok() {
                            oks += 1;
                        }
                        // everything the response held before the write must still be there
                        let kept = before.as_object().unwrap().iter().all(|(k, v)| resp.get(k) == Some(v));
                        // ... and a response that has every mapped field comes back exactly as it went in
                        let complete = before.get("len").is_some();
                        if !kept || (complete && resp != before) {
                            touched.push(rid);
                        }
                    }
                    (oks, touched)
                })
            })
            .collect();
        let results: Vec<(usize, Vec<i64>)> = handles.into_iter().map(|h| h.join().unwrap_or((0, vec![]))).collect();
        let oks: usize = results.iter().map(|r| r.0).sum();
        let touched: Vec<i64> = results.iter().flat_map(|r| r.1.clone()).collect();
        drop(sink);
        let lines = read_lines(&path);
        let header = if fmt == "csv" && !lines.is_empty() { lines[0].clone() } else { String::new() };
        let cols: Vec<&str> = header.split(',').collect();
        let mut headers = 0;
        for (i, line) in lines.iter().enumerate() {
            if fmt == "csv" && *line == header {
                headers += 1;
                if i == 0 {
                    continue;
                }
            }
            if i < before {
                continue;
            }
            let (rid, intact) = if fmt == "json" {
                match serde_json::from_str::<Value>(line) {
                    Ok(v) => {
                        let rid = v["rid"].as_i64().unwrap_or(-1);
                        (rid, expected.get(&rid).map(|e| e == line).unwrap_or(false))
                    }
                    Err(_) => (-1, false),
                }
            } else {
                let cells: Vec<&str> = line.split(',').collect();
                let get = |name: &str| cols.iter().position(|c| *c == name).and_then(|p| cells.get(p)).map(|s| s.trim_matches('"').to_string()).unwrap_or_default();
                let rid = get("Rid").parse::<i64>().unwrap_or(-1);
                let want_len = plan.iter().flatten().find(|(r, _)| *r == rid).map(|(_, l)| *l).unwrap_or(usize::MAX);
                let len_cell_ok = get("len").is_empty() || get("len").parse::<usize>().ok() == Some(want_len);
                let grp_ok = if rid % 5 == 0 { get("grp") == "null" } else { get("grp").parse::<i64>().ok() == Some(rid * 2) };
                // a sum over members that may be absent (optional) or null: those count as zero
                let has_len = !get("len").is_empty();
                let want_tot = rid as f64 + if has_len { 3.0 * want_len as f64 } else { 0.0 } + if rid % 5 == 0 { 0.0 } else { (rid * 2) as f64 };
                let tot_ok = get("Tot").parse::<f64>().ok() == Some(want_tot);
                (rid, cells.len() == cols.len() && len_cell_ok && grp_ok && tot_ok && get("Pad").len() == want_len && get("Pad").bytes().all(|b| b == b'x'))
            };
            out.event(json!({"ev": "FileLine", "rid": rid, "intact": intact}));
        }
        out.event(json!({"ev": "Wrote", "untouched": touched.is_empty(), "touched": touched}));
        out.event(json!({"ev": "SinkEnd", "rep": rep, "oks": oks, "nlines": lines.len(), "headers": headers, "fmt": fmt}));
    }
}

pub fn main(args: &[String]) -> i32 {
    let mut out = Out::new();
    if has_flag(args, "--scenarios") {
        for (i, s) in read_scenarios().iter().enumerate() {
            if s.get("threads").is_some() {
                run_sink_scenario(&mut out, s, i);
            } else {
                run_app_scenario(&mut out, s, i);
            }
        }
    } else if has_flag(args, "--sink") {
        let n = arg_usize(args, "--random", 10);
        let mut r = rng(19);
        for i in 0..n {
            let flush = [1, 3, 1000][r.gen_range(0..3)];
            let s = json!({"threads": r.gen_range(2..=16), "rows": r.gen_range(3..=40), "fmt": if r.gen_bool(0.7) {"json"} else {"csv"},
                           "sorted": r.gen_bool(0.5), "flush": flush, "reps": r.gen_range(1..=2), "combined": r.gen_bool(0.5)});
            run_sink_scenario(&mut out, &s, i);
        }
    } else {
        let n = arg_usize(args, "--random", 20);
        let maxq = arg_usize(args, "--maxq", 24);
        let mut r = rng(6);
        for i in 0..n {
            let s = gen_batch(&mut r, maxq);
            guarded(&mut out, |o| run_app_scenario(o, &s, i % 4));
        }
    }
    out.flush();
    0
}
