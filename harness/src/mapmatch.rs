//! C16: the real vertex / edge map matching plugins on generated candidate sets.
use crate::search::scratch_dir;
use crate::util::*;
use geo::coord;
use rand::rngs::StdRng;
use rand::Rng;
use routee_compass::app::compass::config::frontier_model::road_class::road_class_parser::RoadClassParser;
use routee_compass::plugin::input::default::edge_rtree::edge_rtree_input_plugin::EdgeRtreeInputPlugin;
use routee_compass::plugin::input::default::vertex_rtree::plugin::RTreePlugin;
use routee_compass::plugin::input::input_plugin::InputPlugin;
use routee_compass_core::model::unit::{as_f64::AsF64, Distance};
use routee_compass_core::util::geo::haversine;
use serde_json::{json, Value};

const UNIT: f64 = 1.0e-4; // lattice unit in degrees

fn deg(v: &Value) -> f64 {
    v.as_i64().unwrap() as f64 * UNIT
}

fn run_scenario(out: &mut Out, scn: &Value, tag: usize) {
    out.scenario(scn);
    let dir = scratch_dir();
    let kind = scn["kind"].as_str().unwrap();
    let cands = scn["cands"].as_array().unwrap();
    let tol_on = scn["tol"]["on"].as_bool().unwrap();
    let tol = if tol_on { Some(Distance::new(scn["tol"]["val"].as_f64().unwrap())) } else { None };
    // a tolerance in metres may be configured without naming its unit
    let unit = if scn["tol"]["omit_unit"].as_bool().unwrap_or(false) {
        None
    } else if tol_on || scn["tol"]["unit_given"].as_bool().unwrap_or(false) {
        Some(crate::search::dunit(scn["tol"]["unit"].as_str().unwrap()))
    } else {
        None
    };
    let mut query = json!({"origin_x": deg(&scn["q"][0]), "origin_y": deg(&scn["q"][1]), "keep_me": {"a": [1, 2, 3]}, "name": "q"});
    let res: Result<i64, String>;
    if kind == "vertex" {
        let path = dir.join(format!("mm-vertices-{}.csv", tag));
        let mut txt = String::from("vertex_id,x,y\n");
        for (i, c) in cands.iter().enumerate() {
            txt.push_str(&format!("{},{:.6},{:.6}\n", i, deg(&c["x"]), deg(&c["y"])));
        }
        std::fs::write(&path, txt).unwrap();
        // every other plugin is built from a configuration object by the application's builder
        let via_builder = tag % 2 == 0;
        let plugin: std::sync::Arc<dyn InputPlugin> = if via_builder {
            use routee_compass::app::compass::config::builders::InputPluginBuilder;
            let mut cfg = json!({"type": "vertex_rtree", "vertices_input_file": path.to_str().unwrap()});
            if let Some(t) = tol {
                cfg["distance_tolerance"] = json!(t.as_f64());
            }
            if unit.is_some() {
                cfg["distance_unit"] = scn["tol"]["unit"].clone();
            }
            routee_compass::plugin::input::default::vertex_rtree::builder::VertexRTreeBuilder {}.build(&cfg).map_err(|e| e.to_string()).unwrap()
        } else {
            std::sync::Arc::new(RTreePlugin::new(&path, tol, unit).map_err(|e| e.to_string()).unwrap())
        };
        res = plugin.process(&mut query).map_err(|e| e.to_string()).map(|_| query["origin_vertex"].as_i64().unwrap_or(-1) + 1);
    } else {
        let gpath = dir.join(format!("mm-geoms-{}.txt", tag));
        let mut gtxt = String::new();
        let mut ctxt = String::new();
        let mut rtxt = String::from("edge_id,restriction_name,restriction_value,restriction_unit\n");
        let mut rrows: Vec<(usize, usize, String)> = vec![];
        for (i, c) in cands.iter().enumerate() {
            // a two-point line string whose centroid (midpoint) is the lattice point
            let (x, y) = (c["x"].as_i64().unwrap(), c["y"].as_i64().unwrap());
            let (dx, dy) = (c["hx"].as_i64().unwrap_or(3), c["hy"].as_i64().unwrap_or(2));
            if i % 2 == 1 {
                // a bent (L-shaped) geometry of two equally long legs whose length-weighted centroid is the lattice point,
                // while the middle of its bounding box is not
                let d = dx.max(1);
                gtxt.push_str(&format!("LINESTRING ({:.6} {:.6}, {:.6} {:.6}, {:.6} {:.6})\n", (x - 3 * d) as f64 * UNIT, (y + d) as f64 * UNIT,
                                       (x + d) as f64 * UNIT, (y + d) as f64 * UNIT, (x + d) as f64 * UNIT, (y - 3 * d) as f64 * UNIT));
            } else {
                gtxt.push_str(&format!("LINESTRING ({:.6} {:.6}, {:.6} {:.6})\n", (x - dx) as f64 * UNIT, (y - dy) as f64 * UNIT, (x + dx) as f64 * UNIT, (y + dy) as f64 * UNIT));
            }
            ctxt.push_str(&format!("{}\n", c["cls"]));
            for (k, r) in c["restr"].as_array().unwrap().iter().enumerate() {
                rrows.push((i, k, format!("{},{},{},{}\n", i, r["kind"].as_str().unwrap(), r["val"], r["unit"].as_str().unwrap())));
            }
        }
        // the restriction file is a table: in every other scenario the rows of one edge are not adjacent
        if cands.len() % 2 == 0 {
            rrows.sort_by_key(|r| (r.1, r.0));
        }
        for r in &rrows {
            rtxt.push_str(&r.2);
        }
        std::fs::write(&gpath, gtxt).unwrap();
        let cpath = dir.join(format!("mm-classes-{}.txt", tag));
        std::fs::write(&cpath, ctxt).unwrap();
        let rpath = dir.join(format!("mm-restr-{}.csv", tag));
        std::fs::write(&rpath, rtxt).unwrap();
        if scn["allowed_on"].as_bool().unwrap() {
            query["road_classes"] = scn["allowed"].clone();
        }
        if scn["veh_on"].as_bool().unwrap() {
            let v = &scn["veh"];
            query["vehicle_parameters"] = json!({"height": v["height"], "width": v["width"], "total_length": v["total_length"],
                "trailer_length": v["trailer_length"], "total_weight": v["total_weight"], "number_of_axles": v["number_of_axles"]});
        }
        let via_builder = tag % 2 == 0;
        let plugin: std::sync::Arc<dyn InputPlugin> = if via_builder {
            use routee_compass::app::compass::config::builders::InputPluginBuilder;
            let mut cfg = json!({"type": "edge_rtree", "geometry_input_file": gpath.to_str().unwrap(), "road_class_input_file": cpath.to_str().unwrap(),
                                 "vehicle_restriction_input_file": rpath.to_str().unwrap()});
            if let Some(t) = tol {
                cfg["distance_tolerance"] = json!(t.as_f64());
            }
            if unit.is_some() {
                cfg["distance_unit"] = scn["tol"]["unit"].clone();
            }
            routee_compass::plugin::input::default::edge_rtree::edge_rtree_input_plugin_builder::EdgeRtreeInputPluginBuilder {}.build(&cfg).map_err(|e| e.to_string()).unwrap()
        } else {
            std::sync::Arc::new(
                EdgeRtreeInputPlugin::new(
                    Some(cpath.to_str().unwrap().to_string()),
                    Some(rpath.to_str().unwrap().to_string()),
                    gpath.to_str().unwrap().to_string(),
                    tol,
                    unit,
                    RoadClassParser::default(),
                )
                .map_err(|e| e.to_string())
                .unwrap(),
            )
        };
        res = plugin.process(&mut query).map_err(|e| e.to_string()).map(|_| query["origin_edge"].as_i64().unwrap_or(-1) + 1);
    }
    let unchanged = query["keep_me"] == json!({"a": [1, 2, 3]}) && query["name"] == json!("q")
        && query["origin_x"] == json!(deg(&scn["q"][0])) && query["origin_y"] == json!(deg(&scn["q"][1]));
    let q32 = coord! {x: deg(&scn["q"][0]) as f32, y: deg(&scn["q"][1]) as f32};
    let cands_ev: Vec<Value> = cands
        .iter()
        .map(|c| {
            let p = coord! {x: deg(&c["x"]) as f32, y: deg(&c["y"]) as f32};
            let gc = haversine::coord_distance_meters(&q32, &p).map(|d| scaled(d.as_f64(), 10.0)).unwrap_or(-1);
            json!({"x": c["x"], "y": c["y"], "gc": gc, "cls": c["cls"], "restr": c["restr"]})
        })
        .collect();
    out.event(json!({"ev": "Match", "kind": kind, "cands": cands_ev, "q": scn["q"], "tol": scn["tol"],
        "allowed_on": scn["allowed_on"], "allowed": scn["allowed"], "veh_on": scn["veh_on"], "veh": scn["veh"],
        "res": res.clone().unwrap_or(0), "msg": res.err().unwrap_or_default(), "unchanged": unchanged}));
}

fn gen(r: &mut StdRng) -> Value {
    let kind = if r.gen_bool(0.45) { "vertex" } else { "edge" };
    let n = r.gen_range(1..=7);
    let span = 60i64;
    let mut cands = vec![];
    let kinds = ["maximum_total_weight", "maximum_weight_per_axle", "maximum_length", "maximum_width", "maximum_height", "maximum_trailer_length"];
    let dunits = ["meters", "feet", "inches", "kilometers", "miles"];
    let wunits = ["pounds", "tons", "kg"];
    for _ in 0..n {
        let mut restr = vec![];
        if kind == "edge" {
            for _ in 0..r.gen_range(0..=2) {
                let k = kinds[r.gen_range(0..kinds.len())];
                let (val, unit) = if k.contains("weight") {
                    let u = wunits[r.gen_range(0..3)];
                    (match u { "tons" => r.gen_range(2..40), "pounds" => r.gen_range(4000..80000), _ => r.gen_range(2000..36000) }, u)
                } else {
                    let u = dunits[r.gen_range(0..3)];
                    (match u { "meters" => r.gen_range(2..30), "feet" => r.gen_range(6..90), _ => r.gen_range(70..1000) }, u)
                };
                restr.push(json!({"kind": k, "val": val, "unit": unit}));
            }
        }
        cands.push(json!({"x": r.gen_range(0..=span), "y": r.gen_range(0..=span), "cls": r.gen_range(0..4), "restr": restr,
                          "hx": r.gen_range(0..=4), "hy": r.gen_range(0..=4)}));
    }
    let q = if r.gen_bool(0.15) { json!([r.gen_range(-2000..2000), r.gen_range(-2000..2000)]) } else { json!([r.gen_range(-20..=span + 20), r.gen_range(-20..=span + 20)]) };
    // vehicle in units that differ from the restriction units
    let veh = json!({"height": [r.gen_range(2..5), "meters"], "width": [r.gen_range(6..12), "feet"], "total_length": [r.gen_range(200..900), "inches"],
                     "trailer_length": [r.gen_range(3..18), "meters"], "total_weight": [r.gen_range(3..40), "tons"], "number_of_axles": r.gen_range(2..6)});
    let tol_unit = ["meters", "feet", "kilometers", "miles", "inches"][r.gen_range(0..5)];
    let tol_m: f64 = [30.0, 150.0, 400.0, 900.0, 5000.0][r.gen_range(0..5)];
    let val = match tol_unit { "meters" => tol_m, "feet" => (tol_m * 3.28).round(), "kilometers" => (tol_m / 1000.0).max(1.0).round(),
                               "miles" => (tol_m / 1609.0).max(1.0).round(), _ => (tol_m * 39.37).round() };
    let omit_unit = tol_unit == "meters" && r.gen_bool(0.5);
    json!({"kind": kind, "cands": cands, "q": q, "tol": {"on": r.gen_bool(0.7), "val": val as i64, "unit": tol_unit, "omit_unit": omit_unit},
           "allowed_on": kind == "edge" && r.gen_bool(0.6), "allowed": (0..4).filter(|_| r.gen_bool(0.6)).collect::<Vec<i64>>(),
           "veh_on": kind == "edge" && r.gen_bool(0.6), "veh": veh})
}

/// keep the generated case away from decision boundaries the floats could flip: a candidate whose great-circle
/// distance is within 3 % of the tolerance, or a vehicle value within 2 % of a limit after conversion
fn near_boundary(s: &Value) -> bool {
    let tol_m = s["tol"]["val"].as_f64().unwrap()
        * match s["tol"]["unit"].as_str().unwrap() { "meters" => 1.0, "feet" => 0.3048, "kilometers" => 1000.0, "miles" => 1609.344, _ => 0.0254 };
    let (qx, qy) = (s["q"][0].as_f64().unwrap(), s["q"][1].as_f64().unwrap());
    for c in s["cands"].as_array().unwrap() {
        let d = 11.1195 * ((c["x"].as_f64().unwrap() - qx).powi(2) + (c["y"].as_f64().unwrap() - qy).powi(2)).sqrt();
        if s["tol"]["on"].as_bool().unwrap() && (d - tol_m).abs() <= 0.03 * tol_m + 0.5 {
            return true;
        }
        for r in c["restr"].as_array().unwrap() {
            let k = r["kind"].as_str().unwrap();
            let to_base = |v: f64, u: &str| -> f64 {
                v * match u { "meters" => 1.0, "feet" => 0.3048, "inches" => 0.0254, "kilometers" => 1000.0, "miles" => 1609.344,
                              "pounds" => 0.45359237, "tons" => 907.18474, "kg" => 1.0, _ => 1.0 }
            };
            let p = match k { "maximum_total_weight" | "maximum_weight_per_axle" => &s["veh"]["total_weight"], "maximum_length" => &s["veh"]["total_length"],
                              "maximum_width" => &s["veh"]["width"], "maximum_height" => &s["veh"]["height"], _ => &s["veh"]["trailer_length"] };
            let mut v = to_base(p[0].as_f64().unwrap(), p[1].as_str().unwrap());
            if k == "maximum_weight_per_axle" {
                v /= s["veh"]["number_of_axles"].as_f64().unwrap();
            }
            let lim = to_base(r["val"].as_f64().unwrap(), r["unit"].as_str().unwrap());
            if (v - lim).abs() <= 0.02 * lim {
                return true;
            }
        }
    }
    false
}

pub fn main(args: &[String]) -> i32 {
    let mut out = Out::new();
    if has_flag(args, "--scenarios") {
        for (i, s) in read_scenarios().iter().enumerate() {
            run_scenario(&mut out, s, i % 4);
        }
    } else {
        let n = arg_usize(args, "--random", 300);
        let mut r = rng(16);
        let mut i = 0;
        while i < n {
            let s = gen(&mut r);
            if near_boundary(&s) {
                continue;
            }
            guarded(&mut out, |o| run_scenario(o, &s, i % 4));
            i += 1;
        }
    }
    out.flush();
    0
}
