//! C18: strongly connected components. Calls the real component analysis on scenario graphs and
//! logs results (plus top-level DFS calls with their visited sets) for contract validation.
use crate::search::build_graph;
use crate::util::*;
use rand::Rng;
use routee_compass_core::algorithm::component::scc;
use routee_compass_core::model::network::VertexId;
use serde_json::{json, Value};
use std::collections::HashSet;

fn ids(v: &[VertexId]) -> Vec<usize> {
    v.iter().map(|x| x.0 + 1).collect()
}
fn sorted(h: &HashSet<VertexId>) -> Vec<usize> {
    let mut v: Vec<usize> = h.iter().map(|x| x.0 + 1).collect();
    v.sort();
    v
}

/// scenario {nv, E: [[s,d]..]} (1-based)
fn run_scenario(out: &mut Out, scn: &Value, with_dfs: bool) {
    out.scenario(scn);
    let nv = scn["nv"].as_u64().unwrap() as usize;
    // reuse the search harness' graph builder (needs a length column)
    let e3: Vec<Value> = scn["E"].as_array().unwrap().iter().map(|e| json!([e[0], e[1], 1, 1])).collect();
    // a third of the graphs are loaded from files by the real loader (scanned counts), the others are assembled in memory
    let ne = e3.len();
    let g = if (nv + ne) % 3 == 0 {
        let dir = crate::search::scratch_dir();
        let (ep, vp) = (dir.join("scc-edges.csv"), dir.join("scc-vertices.csv"));
        let mut etxt = String::from("edge_id,src_vertex_id,dst_vertex_id,distance\n");
        for (i, e) in scn["E"].as_array().unwrap().iter().enumerate() {
            etxt.push_str(&format!("{},{},{},1\n", i, e[0].as_u64().unwrap() - 1, e[1].as_u64().unwrap() - 1));
        }
        let mut vtxt = String::from("vertex_id,x,y\n");
        for v in 0..nv {
            vtxt.push_str(&format!("{},0.0,0.0\n", v));
        }
        // half of the files end without a final newline (the last row is a row all the same)
        if (nv + ne) % 2 == 0 {
            etxt.pop();
            vtxt.pop();
        }
        std::fs::write(&ep, etxt).unwrap();
        std::fs::write(&vp, vtxt).unwrap();
        routee_compass_core::model::network::graph::Graph::from_files(&ep, &vp, None, None, Some(false)).expect("graph files")
    } else {
        build_graph(&json!({"nv": nv, "E": e3}))
    };
    out.event(json!({"ev": "Graph", "nv": nv, "E": scn["E"]}));
    if with_dfs {
        // top-level calls of the two public searches from every root, on a visited set grown as pass 1 grows it
        let mut visited: HashSet<VertexId> = HashSet::new();
        let mut stack: Vec<VertexId> = vec![];
        for v in 0..nv {
            let before = sorted(&visited);
            let n0 = stack.len();
            scc::depth_first_search(&g, &VertexId(v), &mut visited, &mut stack).unwrap();
            out.event(json!({"ev": "Dfs", "root": v + 1, "rev": false, "visited": before,
                             "pushed": ids(&stack[n0..]), "visited_after": sorted(&visited)}));
        }
        let mut visited: HashSet<VertexId> = HashSet::new();
        for v in (0..nv).rev() {
            let before = sorted(&visited);
            let mut comp: Vec<VertexId> = vec![];
            scc::reverse_depth_first_search(&g, &VertexId(v), &mut visited, &mut comp).unwrap();
            out.event(json!({"ev": "Dfs", "root": v + 1, "rev": true, "visited": before,
                             "pushed": ids(&comp), "visited_after": sorted(&visited)}));
        }
    }
    let comps = scc::all_strongly_connected_componenets(&g).unwrap();
    let largest = scc::largest_strongly_connected_component(&g).unwrap();
    out.event(json!({"ev": "Result", "comps": comps.iter().map(|c| ids(c)).collect::<Vec<_>>(), "largest": ids(&largest)}));
}

fn gen(r: &mut rand::rngs::StdRng, maxv: usize) -> Value {
    let kind = r.gen_range(0..5);
    let nv = r.gen_range(1..=maxv);
    let mut e: Vec<Value> = vec![];
    match kind {
        0 => {
            // long chain with a few back edges
            for i in 1..nv {
                e.push(json!([i, i + 1]));
            }
            for _ in 0..r.gen_range(0..3) {
                let a = r.gen_range(1..=nv);
                let b = r.gen_range(1..=a);
                e.push(json!([a, b]));
            }
        }
        1 => {
            // nested cycles
            let mut start = 1;
            while start < nv {
                let len = r.gen_range(1..=(nv - start + 1).min(6));
                for i in 0..len {
                    e.push(json!([start + i, start + (i + 1) % len]));
                }
                if start > 1 {
                    e.push(json!([r.gen_range(1..start), start]));
                    if r.gen_bool(0.4) {
                        e.push(json!([start, r.gen_range(1..start)]));
                    }
                }
                start += len;
            }
        }
        _ => {
            let ne = r.gen_range(0..=(nv * 2));
            for _ in 0..ne {
                let s = r.gen_range(1..=nv);
                let d = if r.gen_bool(0.05) { s } else { r.gen_range(1..=nv) };
                e.push(json!([s, d]));
                if r.gen_bool(0.1) {
                    e.push(json!([s, d])); // parallel edge
                }
            }
        }
    }
    json!({"nv": nv, "E": e})
}

pub fn main(args: &[String]) -> i32 {
    let mut out = Out::new();
    if has_flag(args, "--scenarios") {
        for s in read_scenarios() {
            run_scenario(&mut out, &s, s["E"].as_array().map(|e| e.len() <= 12).unwrap_or(true));
        }
    } else {
        let n = arg_usize(args, "--random", 200);
        let maxv = arg_usize(args, "--maxv", 40);
        let mut r = rng(18);
        for _ in 0..n {
            let s = gen(&mut r, maxv);
            guarded(&mut out, |o| run_scenario(o, &s, true));
        }
    }
    out.flush();
    0
}
