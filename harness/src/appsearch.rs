//! Search family, application level: the scenario of the search harness is turned into a complete application
//! configuration (JSON) and input files, CompassApp is built from it as a user would, the query is submitted through
//! CompassApp::run, and only what a user sees is recorded: the response (route path with per-edge state and costs, tree,
//! summary, error).  Nothing between Setup and End is observed - the specification's own search steps are silent
//! ("black box") and TLC looks for a behaviour of Search that ends in the recorded response.
use crate::search::*;
use crate::util::*;
use rand::rngs::StdRng;
use rand::Rng;
use routee_compass::app::compass::compass_app::CompassApp;
use routee_compass_core::model::network::VertexId;
use routee_compass_core::model::unit::{as_f64::AsF64, Distance, DistanceUnit, Time, TimeUnit};
use routee_compass_core::util::geo::haversine;
use serde_json::{json, Value};

fn speed_unit_name(s: &str) -> &'static str {
    match s {
        "kph" => "kilometers_per_hour",
        "mph" => "miles_per_hour",
        _ => "meters_per_second",
    }
}

/// writes the input files of the scenario and returns the application configuration + the query
pub fn config_of(scn: &Value, dir: &std::path::Path) -> (Value, Value) {
    std::fs::create_dir_all(dir).unwrap();
    let p = |f: &str| dir.join(f).to_str().unwrap().to_string();
    let nu = norm_units(scn);
    let nv = ju(&scn["nv"]);
    let es = scn["E"].as_array().unwrap();
    let ne = es.len();
    // network
    let mut etxt = String::from("edge_id,src_vertex_id,dst_vertex_id,distance\n");
    let mut gtxt = String::new();
    let xy = |i: usize| (ji(&scn["xy"][i][0]) as f64 / 1000.0, ji(&scn["xy"][i][1]) as f64 / 1000.0);
    for (i, e) in es.iter().enumerate() {
        let (s, d) = (ju(&e[0]) - 1, ju(&e[1]) - 1);
        etxt.push_str(&format!("{},{},{},{}\n", i, s, d, e[2]));
        let (a, b) = (xy(s), xy(d));
        gtxt.push_str(&format!("LINESTRING ({:.5} {:.5}, {:.5} {:.5})\n", a.0, a.1, b.0, b.1));
    }
    let mut vtxt = String::from("vertex_id,x,y\n");
    for i in 0..nv {
        let c = xy(i);
        vtxt.push_str(&format!("{},{:.5},{:.5}\n", i, c.0, c.1));
    }
    std::fs::write(p("edges.csv"), etxt).unwrap();
    std::fs::write(p("vertices.csv"), vtxt).unwrap();
    std::fs::write(p("geoms.txt"), gtxt).unwrap();
    let mut query = json!({});
    // algorithm
    let algorithm = match scn["alg"].as_str().unwrap_or("dijkstra") {
        "dijkstra" => json!({"type": "dijkstra"}),
        _ => {
            if scn["wf_src"].as_str().unwrap_or("alg") == "alg" {
                if ji(&scn["wf"]) == 1000 && scn["omit_zero"].as_bool().unwrap_or(false) {
                    json!({"type": "a*"})
                } else {
                    json!({"type": "a*", "weight_factor": jf(&scn["wf"]) / 1000.0})
                }
            } else {
                query["weight_factor"] = json!(jf(&scn["wf"]) / 1000.0);
                json!({"type": "a*", "weight_factor": 7.0})
            }
        }
    };
    // traversal
    let su = sunit(nu["speed"].as_str().unwrap());
    let traversal = if scn["model"].as_str().unwrap_or("speed") == "distance" {
        json!({"type": "distance", "distance_unit": nu["distance"]})
    } else {
        let mut txt = String::new();
        for e in es {
            let v = routee_compass_core::model::unit::SpeedUnit::MetersPerSecond
                .convert(&routee_compass_core::model::unit::Speed::new(jf(&e[3])), &su);
            txt.push_str(&format!("{}\n", v.as_f64()));
        }
        std::fs::write(p("speeds.txt"), txt).unwrap();
        json!({"type": "speed_table", "speed_table_input_file": p("speeds.txt"), "speed_unit": speed_unit_name(nu["speed"].as_str().unwrap()),
               "distance_unit": nu["distance"], "time_unit": nu["time"]})
    };
    // access
    let access = if scn["acc"].as_str().unwrap_or("none") == "turn" {
        let mut txt = String::from("arrival_heading,departure_heading\n");
        for h in scn["hd"].as_array().unwrap() {
            // the second heading is optional: a straight edge may leave it out
            if ji(&h[0]) == ji(&h[1]) && scn["omit_zero"].as_bool().unwrap_or(false) {
                txt.push_str(&format!("{},\n", ji(&h[0])));
            } else {
                txt.push_str(&format!("{},{}\n", ji(&h[0]), ji(&h[1])));
            }
        }
        std::fs::write(p("headings.csv"), txt).unwrap();
        let dtu = tunit(nu["delay"].as_str().unwrap());
        let names = ["no_turn", "slight_right", "slight_left", "right", "left", "sharp_right", "sharp_left", "u_turn"];
        let mut table = serde_json::Map::new();
        for (i, d) in scn["delay"].as_array().unwrap().iter().enumerate() {
            table.insert(names[i].to_string(), json!(TimeUnit::Seconds.convert(&Time::new(jf(d)), &dtu).as_f64()));
        }
        let one = json!({"type": "turn_delay", "edge_heading_input_file": p("headings.csv"),
               "turn_delay_model": {"type": "tabular_discrete", "table": table, "time_unit": nu["delay"]}});
        if scn["split_models"].as_bool().unwrap_or(false) {
            let (mut ta, mut tb) = (serde_json::Map::new(), serde_json::Map::new());
            for (k, v) in one["turn_delay_model"]["table"].as_object().unwrap() {
                let d = v.as_f64().unwrap();
                let a = (d / 2.0).floor();
                ta.insert(k.clone(), json!(a));
                tb.insert(k.clone(), json!(d - a));
            }
            let (mut ma, mut mb) = (one.clone(), one.clone());
            ma["turn_delay_model"]["table"] = Value::Object(ta);
            mb["turn_delay_model"]["table"] = Value::Object(tb);
            json!({"type": "combined", "access_models": [ma, mb]})
        } else {
            one
        }
    } else {
        json!({"type": "no_access_model"})
    };
    // cost: weights / rates in force from the configuration or from the query (the configuration then holds decoys)
    let rate_json = |f: i64| -> Value {
        match f {
            0 => json!({"type": "zero"}),
            1 => json!({"type": "raw"}),
            k => json!({"type": "factor", "factor": k as f64}),
        }
    };
    let mut real_weights = json!({"distance": jf(&scn["wd"]), "time": jf(&scn["wt"])});
    let mut real_rates = json!({"distance": rate_json(ji(&scn["rd"])), "time": rate_json(ji(&scn["rt"]))});
    // a feature that does not count may be left out of the mappings altogether instead of being weighted zero
    if scn["omit_zero"].as_bool().unwrap_or(false) {
        for (k, w) in [("distance", "wd"), ("time", "wt")] {
            if jf(&scn[w]) == 0.0 {
                real_weights.as_object_mut().unwrap().remove(k);
                real_rates.as_object_mut().unwrap().remove(k);
            }
        }
    }
    let mut cost = json!({"cost_aggregation": "sum"});
    if scn["cost_src"].as_str().unwrap_or("config") == "query" {
        cost["weights"] = json!({"distance": 7.0, "time": 0.25});
        cost["vehicle_rates"] = json!({"distance": {"type": "factor", "factor": 9.0}, "time": {"type": "zero"}});
        query["weights"] = real_weights;
        query["vehicle_rates"] = real_rates;
    } else {
        cost["weights"] = real_weights;
        cost["vehicle_rates"] = real_rates;
    }
    // frontier
    let mut models: Vec<Value> = vec![];
    if let Some(cls) = scn["cls"].as_array().filter(|c| !c.is_empty()) {
        std::fs::write(p("road_classes.txt"), cls.iter().map(|c| format!("{}\n", ju(c))).collect::<String>()).unwrap();
        let mut m = json!({"type": "road_class", "road_class_input_file": p("road_classes.txt")});
        if let Some(mp) = scn.get("clsmap").filter(|m| m.is_object()) {
            m["road_class_parser"] = json!({ "mapping": mp });
        }
        models.push(m);
        if let Some(a) = scn.get("allowed_query").filter(|a| !a.is_null()) {
            query["road_classes"] = a.clone();
        }
    }
    if let Some(bad) = scn["bad"].as_array() {
        if !bad.is_empty() || scn["force_turn_model"].as_bool().unwrap_or(false) {
            let parts = if scn["split_models"].as_bool().unwrap_or(false) { 2 } else { 1 };
            for part in 0..parts {
                let mut txt = String::from("prev_edge_id,next_edge_id\n");
                for (i, b) in bad.iter().enumerate() {
                    if i % parts == part {
                        txt.push_str(&format!("{},{}\n", ju(&b[0]) - 1, ju(&b[1]) - 1));
                    }
                }
                let f = format!("turn_restrictions{}.csv", part);
                std::fs::write(p(&f), txt).unwrap();
                models.push(json!({"type": "turn_restriction", "turn_restriction_input_file": p(&f)}));
            }
        }
    }
    if scn["veh_on"].as_bool().unwrap_or(false) {
        let mut rows: Vec<(usize, usize, String)> = vec![];
        for (i, rs) in scn["vrestr"].as_array().unwrap().iter().enumerate() {
            for (k, r) in rs.as_array().unwrap().iter().enumerate() {
                rows.push((i, k, format!("{},{},{},{}\n", i, r["kind"].as_str().unwrap(), r["val"], r["unit"].as_str().unwrap())));
            }
        }
        if scn["vr_order"].as_str().unwrap_or("edge") != "edge" {
            rows.sort_by_key(|r| (r.1, r.0));
        }
        let parts = if scn["split_models"].as_bool().unwrap_or(false) { 2 } else { 1 };
        for part in 0..parts {
            let txt = String::from("edge_id,restriction_name,restriction_value,restriction_unit\n")
                + &rows.iter().enumerate().filter(|(i, _)| i % parts == part).map(|(_, r)| r.2.clone()).collect::<String>();
            let f = format!("vehicle_restrictions{}.csv", part);
            std::fs::write(p(&f), txt).unwrap();
            models.push(json!({"type": "vehicle_restriction", "vehicle_restriction_input_file": p(&f)}));
        }
        query["vehicle_parameters"] = scn["veh"].clone();
    }
    let frontier = match models.len() {
        0 => json!({"type": "no_restriction"}),
        1 => models[0].clone(),
        _ => json!({"type": "combined", "models": models}),
    };
    // termination
    let (itl, szl) = (ji(&scn["itl"]), ji(&scn["szl"]));
    let mut terms = vec![];
    if itl >= 0 {
        terms.push(json!({"type": "iterations", "limit": itl}));
    }
    if szl >= 0 {
        terms.push(json!({"type": "solution_size", "limit": szl}));
    }
    let termination = match terms.len() {
        0 => json!({"type": "iterations", "limit": 1_000_000_000i64}),
        1 => terms.pop().unwrap(),
        _ => json!({"type": "combined", "models": terms}),
    };
    // state features.  The speed-table model declares distance and time itself (in its own units, starting at zero);
    // the query may re-declare them in other units / with other initial values.  The distance model declares nothing:
    // its "distance" feature comes from the [state] section of the configuration.
    let init = scn["init"].as_array().unwrap();
    let sdu = dunit(nu["state_distance"].as_str().unwrap());
    let stu = tunit(nu["state_time"].as_str().unwrap());
    let dfeat = json!({"type": "distance", "distance_unit": nu["state_distance"],
                       "initial": DistanceUnit::Meters.convert(&Distance::new(jf(&init[0])), &sdu).as_f64()});
    let mut state_section = Value::Null;
    if scn["model"].as_str().unwrap_or("speed") == "distance" {
        state_section = json!({ "distance": dfeat });
    } else if jf(&init[0]) != 0.0 || jf(&init[1]) != 0.0 || nu["state_distance"] != nu["distance"] || nu["state_time"] != nu["time"] {
        query["state_features"] = json!({"distance": dfeat,
            "time": {"type": "time", "time_unit": nu["state_time"], "initial": TimeUnit::Seconds.convert(&Time::new(jf(&init[1])), &stu).as_f64()}});
    }
    let edge_mode = scn["orient"].as_str().unwrap_or("vertex") == "edge";
    if edge_mode {
        query["origin_edge"] = json!(ju(&scn["osrc"]) - 1);
        if ju(&scn["odst"]) > 0 {
            query["destination_edge"] = json!(ju(&scn["odst"]) - 1);
        }
    } else {
        query["origin_vertex"] = json!(ju(&scn["src"]) - 1);
        if ju(&scn["dst"]) > 0 {
            query["destination_vertex"] = json!(ju(&scn["dst"]) - 1);
        }
    }
    let mut config = json!({
        "parallelism": 1,
        "search_orientation": if edge_mode { "edge" } else { "vertex" },
        "response_persistence_policy": "persist_response_in_memory",
        "response_output_policy": {"type": "none"},
        "graph": {"edge_list_input_file": p("edges.csv"), "vertex_list_input_file": p("vertices.csv"), "verbose": false},
        "algorithm": algorithm, "traversal": traversal, "access": access, "cost": cost, "frontier": frontier, "termination": termination,
        "plugin": {"input_plugins": [], "output_plugins": [
            {"type": "traversal", "route": "json", "tree": "json", "geometry_input_file": p("geoms.txt")}, {"type": "summary"}]},
    });
    let _ = ne;
    if !state_section.is_null() {
        config["state"] = state_section;
    }
    (config, query)
}

/// [distance (m), time (s)] of a raw state vector, decoded with the state model the RESPONSE declares (feature -> index, unit)
fn decode_state(sm: &Value, raw: &Value, exact: bool) -> Value {
    let get = |name: &str| -> Option<(f64, String)> {
        let f = sm.get(name)?;
        let idx = f["index"].as_u64()? as usize;
        let unit = f.get("distance_unit").or_else(|| f.get("time_unit"))?.as_str()?.to_string();
        Some((raw.get(idx)?.as_f64()?, unit))
    };
    let d = match get("distance") {
        Some((x, u)) => dunit(&u).convert(&Distance::new(x), &DistanceUnit::Meters).as_f64(),
        None => return json!(["state-error"]),
    };
    // the distance-only traversal model has no time feature: time stays what the scenario declares
    let t = match get("time") {
        Some((x, u)) => tunit(&u).convert(&Time::new(x), &TimeUnit::Seconds).as_f64(),
        None => f64::NAN,
    };
    let f = if exact { exact_int } else { near_int };
    match (f(d), if t.is_nan() { Ok(-1) } else { f(t) }) {
        (Ok(d), Ok(t)) => json!([d, t]),
        _ => json!([scaled(d, 1000.0), scaled(t, 1000.0), "inexact"]),
    }
}

fn rows_of(sm: &Value, path: &Value, exact: bool, with_time: Option<i64>) -> Value {
    let fix = |mut st: Value| -> Value {
        // no time feature: the specification keeps the declared initial time
        if let (Some(t0), Some(a)) = (with_time, st.as_array_mut()) {
            if a.len() == 2 && a[1] == json!(-1) {
                a[1] = json!(t0);
            }
        }
        st
    };
    Value::Array(
        path.as_array()
            .map(|p| {
                p.iter()
                    .map(|et| {
                        json!({"e": et["edge_id"].as_u64().unwrap_or(0) + 1, "st": fix(decode_state(sm, &et["result_state"], exact)),
                               "acc": scaled(et["access_cost"].as_f64().unwrap_or(f64::NAN), 1000.0),
                               "trv": scaled(et["traversal_cost"].as_f64().unwrap_or(f64::NAN), 1000.0)})
                    })
                    .collect()
            })
            .unwrap_or_default(),
    )
}

pub fn run_scenario(out: &mut Out, scn: &Value, tag: usize) {
    out.scenario(scn);
    let dir = scratch_dir().join(format!("appsearch-{}", tag % 16));
    let (config, query) = config_of(scn, &dir);
    let cpath = dir.join("config.json");
    std::fs::write(&cpath, serde_json::to_string_pretty(&config).unwrap()).unwrap();
    let app = match CompassApp::try_from(cpath.as_path()) {
        Ok(a) => a,
        Err(e) => {
            out.event(json!({"ev": "BuildError", "msg": e.to_string()}));
            return;
        }
    };
    let exact = base_units(scn);
    let t0 = if scn["model"].as_str().unwrap_or("speed") == "distance" { Some(ji(&scn["init"][1])) } else { None };
    // Setup: the scenario plus the estimate / great-circle values of the instance the application builds for this query
    let nv = ju(&scn["nv"]);
    let dst = ju(&scn["dst"]);
    let mut ev = scn.clone();
    ev["ev"] = json!("Setup");
    ev["bb"] = json!(true);
    ev["units"] = norm_units(scn);
    ev["rtf"] = json!(0);
    ev["rtx"] = json!(false);
    let (mut h, mut gc) = (vec![0i64; nv], vec![0i64; nv]);
    match app.search_app.build_search_instance(&query) {
        Ok(si) => {
            let wf = if scn["alg"].as_str().unwrap_or("dijkstra") == "dijkstra" { 0.0 } else { jf(&scn["wf"]) / 1000.0 };
            let init = si.state_model.initial_state().unwrap();
            if dst > 0 {
                for v in 0..nv {
                    let c = si.estimate_traversal_cost(VertexId(v), VertexId(dst - 1), &init).map(|c| c.as_f64()).unwrap_or(f64::NAN);
                    h[v] = scaled(c * wf, 1000.0);
                    let vs = si.directed_graph.get_vertex(&VertexId(v)).unwrap();
                    let vd = si.directed_graph.get_vertex(&VertexId(dst - 1)).unwrap();
                    gc[v] = haversine::coord_distance_meters(&vs.coordinate.0, &vd.coordinate.0).map(|d| scaled(d.as_f64(), 10.0)).unwrap_or(-1);
                }
            }
            let raw: Vec<f64> = init.iter().map(|s| s.0).collect();
            let sm = si.state_model.serialize_state_model();
            let mut st = decode_state(&sm, &json!(raw), exact);
            if let (Some(t), Some(a)) = (t0, st.as_array_mut()) {
                if a.len() == 2 {
                    a[1] = json!(t);
                }
            }
            ev["init_obs"] = st;
        }
        Err(e) => {
            ev["init_obs"] = json!(["instance-error", e.to_string()]);
        }
    }
    ev["h"] = json!(h);
    ev["gc"] = json!(gc);
    out.event(ev);
    // the query, through the application
    let r = app.run(vec![query.clone()], None);
    let mut end = json!({"ev": "End", "outcome": "error", "msg_iter": false, "msg_size": false, "msg_rt": false, "msg": "",
                         "iters": -1, "tree": [], "route": [], "nroutes": 0, "ntrees": 0, "summary": [], "echo": false, "nresp": -1, "tree_st": true});
    match r {
        Err(e) => {
            end["msg"] = json!(format!("run failed: {}", e));
        }
        Ok(rs) => {
            end["nresp"] = json!(rs.len());
            if let Some(resp) = rs.first() {
                end["echo"] = json!(resp.get("request") == Some(&query));
                match resp.get("error") {
                    Some(e) => {
                        let msg = e.as_str().map(|s| s.to_string()).unwrap_or_else(|| e.to_string());
                        let outcome = if msg.contains("no path exists") {
                            "nopath"
                        } else if msg.contains("query terminated") || msg.contains("exceeded") {
                            "terminated"
                        } else {
                            "error"
                        };
                        end["outcome"] = json!(outcome);
                        end["msg_iter"] = json!(msg.contains("iteration limit"));
                        end["msg_size"] = json!(msg.contains("solution size limit"));
                        end["msg_rt"] = json!(msg.contains("runtime limit"));
                        end["msg"] = json!(msg);
                    }
                    None => {
                        end["outcome"] = json!("ok");
                        let route = &resp["route"];
                        let sm = &route["state_model"];
                        if route.is_object() {
                            end["nroutes"] = json!(1);
                            end["route"] = rows_of(sm, &route["path"], exact, t0);
                            // the summary, by feature name, in the declared units
                            let ts = &route["traversal_summary"];
                            let n = sm.as_object().map(|m| m.len()).unwrap_or(0);
                            let mut raw = vec![json!(0.0); n];
                            if let Some(m) = sm.as_object() {
                                for (name, f) in m {
                                    if let Some(i) = f["index"].as_u64() {
                                        raw[i as usize] = ts[name].clone();
                                    }
                                }
                            }
                            let mut st = decode_state(sm, &json!(raw), exact);
                            if let (Some(t), Some(a)) = (t0, st.as_array_mut()) {
                                if a.len() == 2 && a[1] == json!(-1) {
                                    a[1] = json!(t);
                                }
                            }
                            end["summary"] = st;
                        } else if route.is_array() {
                            end["nroutes"] = json!(route.as_array().unwrap().len());
                        }
                        // the tree: branches without their key vertex; a route-less (destination-less) search reports no state model,
                        // so tree states are decoded with the instance's own
                        let tree = &resp["tree"];
                        let have_sm = sm.is_object();
                        end["tree_st"] = json!(have_sm);
                        let sm_tree = sm.clone();
                        let is_branch_list = tree.as_array().map(|a| a.first().map(|x| x.is_object()).unwrap_or(true)).unwrap_or(false);
                        if is_branch_list {
                            end["ntrees"] = json!(1);
                            let mut rows: Vec<(u64, Value)> = vec![];
                            for b in tree.as_array().unwrap() {
                                let et = &b["edge_traversal"];
                                let e = et["edge_id"].as_u64().unwrap_or(0);
                                let mut row = rows_of(&sm_tree, &json!([et]), exact, t0)[0].clone();
                                if !have_sm {
                                    // the order of the state vector is only reported together with a route
                                    row["st"] = json!([]);
                                }
                                let v = ju(&scn["E"][e as usize][1]);
                                rows.push((v as u64, json!({"v": v, "p": b["terminal_vertex"].as_u64().unwrap_or(0) + 1, "e": row["e"], "st": row["st"],
                                                            "acc": row["acc"], "trv": row["trv"]})));
                            }
                            rows.sort_by_key(|r| r.0);
                            end["tree"] = Value::Array(rows.into_iter().map(|r| r.1).collect());
                        } else if let Some(a) = tree.as_array() {
                            end["ntrees"] = json!(a.len());
                        }
                    }
                }
            }
        }
    }
    out.event(end);
}

fn gen(r: &mut StdRng, maxv: usize, focus: &str) -> Value {
    let mut s = gen_scenario(r, &GenOpts { max_v: maxv, focus: focus.to_string() });
    // the application runs forward searches; surcharges need a lookup that a configuration file cannot express
    s["dir"] = json!("fwd");
    let ne = s["E"].as_array().unwrap().len();
    s["sur"] = json!(vec![0; ne]);
    s["est_mode"] = json!("real");
    s["rtf"] = json!(0);
    s["rtx"] = json!(false);
    s["sleep_at"] = json!(0);
    if r.gen_bool(0.5) {
        s["itl"] = json!(-1);
        s["szl"] = json!(-1);
    }
    s
}

pub fn main(args: &[String]) -> i32 {
    let mut out = Out::new();
    if has_flag(args, "--scenarios") {
        for (i, s) in read_scenarios().iter().enumerate() {
            guarded(&mut out, |o| run_scenario(o, s, i));
        }
    } else {
        let n = arg_usize(args, "--random", 100);
        let maxv = arg_usize(args, "--maxv", 8);
        let focus = arg_val(args, "--focus").unwrap_or_default();
        let mut r = rng(21);
        for i in 0..n {
            let s = gen(&mut r, maxv, &focus);
            guarded(&mut out, |o| run_scenario(o, &s, i));
        }
    }
    out.flush();
    0
}
