//! verif-harness: drivers and recorders only. Each sub-command drives the real routee-compass
//! code through scenarios (read from stdin as JSON lines, or produced by a seeded generator)
//! and writes one ndjson event per specification action to stdout. No verdicts are made here:
//! every comparison is done by TLC against the TLA+ specification.
mod util;
mod omap;
mod search;
mod grid;
mod scc;
mod cost;
mod units;
mod load;
mod app;
mod batch;
mod robust;
mod mapmatch;
mod interp;
mod powertrain;
mod ksp;
mod output;
mod state;
mod appsearch;
mod cli;

fn main() {
    // panics of the code under test are recorded as events by util::guarded; keep stderr quiet
    std::panic::set_hook(Box::new(|info| {
        if std::env::var("VERIF_PANIC_TRACE").is_ok() {
            eprintln!("{}", info);
        }
    }));
    let args: Vec<String> = std::env::args().collect();
    if args.len() < 2 {
        eprintln!("usage: vh <subcommand> [args]");
        std::process::exit(2);
    }
    let rest = &args[2..];
    let rc = match args[1].as_str() {
        "omap" => omap::main(rest),
        "search" => search::main(rest),
        "grid" => grid::main(rest),
        "scc" => scc::main(rest),
        "cost" => cost::main(rest),
        "units" => units::main(rest),
        "load" => load::main(rest),
        "batch" => batch::main(rest),
        "robust" => robust::main(rest),
        "match" => mapmatch::main(rest),
        "interp" => interp::main(rest),
        "powertrain" => powertrain::main(rest),
        "ksp" => ksp::main(rest),
        "output" => output::main(rest),
        "state" => state::main(rest),
        "appsearch" => appsearch::main(rest),
        "cli" => cli::main(rest),
        "ksp-child" => ksp::child(&rest[0]),
        "robust-child" => robust::child(&rest[0]),
        other => {
            eprintln!("unknown subcommand {}", other);
            2
        }
    };
    std::process::exit(rc);
}
