//! C07: drives the real CostModel through EdgeTraversal::{forward,reverse}_traversal with scenario-
//! chosen weights, vehicle/network rates, aggregation and state changes (incl. zero and negative).
use crate::util::*;
use rand::Rng;
use routee_compass_core::algorithm::search::edge_traversal::EdgeTraversal;
use routee_compass_core::algorithm::search::search_instance::SearchInstance;
use routee_compass_core::model::{
    access::{access_model::AccessModel, access_model_error::AccessModelError},
    cost::{
        cost_aggregation::CostAggregation, cost_model::CostModel, network::network_cost_rate::NetworkCostRate,
        vehicle::vehicle_cost_rate::VehicleCostRate,
    },
    frontier::default::no_restriction::NoRestriction,
    network::{Edge, EdgeId, Vertex},
    state::{state_feature::StateFeature, state_model::StateModel},
    termination::termination_model::TerminationModel,
    traversal::{
        state::state_variable::StateVar, traversal_model::TraversalModel, traversal_model_error::TraversalModelError,
    },
    unit::{as_f64::AsF64, Cost, Distance, DistanceUnit},
};
use serde_json::{json, Value};
use std::collections::HashMap;
use std::sync::Arc;

struct DeltaT(Vec<f64>);
impl TraversalModel for DeltaT {
    fn state_features(&self) -> Vec<(String, StateFeature)> {
        vec![]
    }
    fn traverse_edge(&self, _t: (&Vertex, &Edge, &Vertex), state: &mut Vec<StateVar>, sm: &StateModel) -> Result<(), TraversalModelError> {
        for (i, d) in self.0.iter().enumerate() {
            sm.add_distance(state, &format!("f{}", i + 1), &Distance::new(*d), &DistanceUnit::Meters)
                .map_err(|e| TraversalModelError::TraversalModelFailure(e.to_string()))?;
        }
        Ok(())
    }
    fn estimate_traversal(&self, _od: (&Vertex, &Vertex), _s: &mut Vec<StateVar>, _sm: &StateModel) -> Result<(), TraversalModelError> {
        Ok(())
    }
}
struct DeltaA(Vec<f64>);
impl AccessModel for DeltaA {
    fn state_features(&self) -> Vec<(String, StateFeature)> {
        vec![]
    }
    fn access_edge(&self, _t: (&Vertex, &Edge, &Vertex, &Edge, &Vertex), state: &mut Vec<StateVar>, sm: &StateModel) -> Result<(), AccessModelError> {
        for (i, d) in self.0.iter().enumerate() {
            sm.add_distance(state, &format!("f{}", i + 1), &Distance::new(*d), &DistanceUnit::Meters)
                .map_err(|e| AccessModelError::RuntimeError { name: "delta".into(), error: e.to_string() })?;
        }
        Ok(())
    }
}

fn vrate(v: &Value) -> VehicleCostRate {
    match v[0].as_str().unwrap() {
        "zero" => VehicleCostRate::Zero,
        "raw" => VehicleCostRate::Raw,
        "factor" => VehicleCostRate::Factor { factor: v[1].as_f64().unwrap() },
        "offset" => VehicleCostRate::Offset { offset: v[1].as_f64().unwrap() },
        "combined" => VehicleCostRate::Combined(v[1].as_array().unwrap().iter().map(vrate).collect()),
        other => panic!("rate {}", other),
    }
}
/// `this` is the traversed edge, (p, n) the (previous, next) pair of the access
fn nrate(v: &Value, this: usize, p: usize, n: usize) -> NetworkCostRate {
    let c = || Cost::new(v[1].as_f64().unwrap());
    match v[0].as_str().unwrap() {
        "zero" => NetworkCostRate::Zero,
        "edge" => NetworkCostRate::EdgeLookup { lookup: HashMap::from([(EdgeId(this), c()), (EdgeId(9), Cost::new(77.0))]) },
        "edge_other" => NetworkCostRate::EdgeLookup { lookup: HashMap::from([(EdgeId(7), c())]) },
        "turn" => NetworkCostRate::EdgeEdgeLookup { lookup: HashMap::from([((EdgeId(p), EdgeId(n)), c())]) },
        "turn_other" => NetworkCostRate::EdgeEdgeLookup { lookup: HashMap::from([((EdgeId(n), EdgeId(p)), c())]) },
        "combined" => NetworkCostRate::Combined(v[1].as_array().unwrap().iter().map(|x| nrate(x, this, p, n)).collect()),
        other => panic!("net rate {}", other),
    }
}

fn run_scenario(out: &mut Out, scn: &Value) {
    out.scenario(scn);
    let feats = scn["F"].as_array().unwrap();
    let n = feats.len();
    let fwd = scn["dir"].as_str().unwrap_or("fwd") == "fwd";
    let prev = scn["prev"].as_bool().unwrap();
    let names: Vec<String> = (1..=n).map(|i| format!("f{}", i)).collect();
    let sm = Arc::new(StateModel::new(
        names
            .iter()
            .map(|nm| (nm.clone(), StateFeature::Distance { distance_unit: DistanceUnit::Meters, initial: Distance::new(10.0) }))
            .collect(),
    ));
    // e0: v0 -> v1, e1: v1 -> v2; forward traverses e1 after e0, reverse traverses e0 before e1
    let this = if fwd { 1 } else { 0 };
    let graph = crate::search::build_graph(&json!({"nv": 3, "E": [[1, 2, 5, 1], [2, 3, 5, 1]]}));
    let mut weights = HashMap::new();
    let mut vr = HashMap::new();
    let mut nr = HashMap::new();
    for (i, f) in feats.iter().enumerate() {
        // a feature that does not count may be left out of the mappings altogether instead of being weighted zero
        if scn["omit_zero"].as_bool().unwrap_or(false) && f["w"].as_f64().unwrap() == 0.0 {
            continue;
        }
        weights.insert(names[i].clone(), f["w"].as_f64().unwrap());
        vr.insert(names[i].clone(), vrate(&f["rate"]));
        nr.insert(names[i].clone(), nrate(&f["net"], this, 0, 1));
    }
    let agg = if scn["agg"].as_str().unwrap() == "sum" { CostAggregation::Sum } else { CostAggregation::Mul };
    let cm = match CostModel::new(Arc::new(weights), Arc::new(vr), Arc::new(nr), agg, sm.clone()) {
        Ok(c) => c,
        Err(e) => {
            out.event(json!({"ev": "BuildError", "msg": e.to_string()}));
            return;
        }
    };
    let si = SearchInstance {
        directed_graph: Arc::new(graph),
        state_model: sm.clone(),
        traversal_model: Arc::new(DeltaT(feats.iter().map(|f| f["dt"].as_f64().unwrap()).collect())),
        access_model: Arc::new(DeltaA(feats.iter().map(|f| f["da"].as_f64().unwrap()).collect())),
        cost_model: Arc::new(cm),
        frontier_model: Arc::new(NoRestriction {}),
        termination_model: Arc::new(TerminationModel::IterationsLimit { limit: 100 }),
    };
    let init = sm.initial_state().unwrap();
    let et = if fwd {
        EdgeTraversal::forward_traversal(EdgeId(1), if prev { Some(EdgeId(0)) } else { None }, &init, &si)
    } else {
        EdgeTraversal::reverse_traversal(EdgeId(0), if prev { Some(EdgeId(1)) } else { None }, &init, &si)
    };
    match et {
        Err(e) => out.event(json!({"ev": "Error", "msg": e.to_string()})),
        Ok(et) => {
            let tot = et.total_cost().as_f64();
            let est = si.cost_model.cost_estimate(&init, &et.result_state).map(|c| c.as_f64()).unwrap_or(f64::NAN);
            // state change by name
            let delta: Vec<i64> = names
                .iter()
                .map(|nm| {
                    let a = sm.get_distance(&et.result_state, nm, &DistanceUnit::Meters).unwrap().as_f64();
                    let b = sm.get_distance(&init, nm, &DistanceUnit::Meters).unwrap().as_f64();
                    scaled(a - b, 1.0)
                })
                .collect();
            out.event(json!({"ev": "Charge", "agg": scn["agg"], "prev": prev, "F": scn["F"], "dir": scn["dir"],
                "acc": scaled(et.access_cost.as_f64(), 1000.0), "trv": scaled(et.traversal_cost.as_f64(), 1000.0),
                "tot": scaled(tot, 1000.0), "finite": tot.is_finite(), "positive": tot > 0.0,
                "floored": tot > 0.0 && tot < 1e-6,
                "est": scaled(est, 1000.0), "est_finite": est.is_finite(), "est_nonneg": est >= 0.0, "delta": delta}));
        }
    }
}

fn gen_rate(r: &mut rand::rngs::StdRng, depth: u32) -> Value {
    match r.gen_range(0..if depth > 1 { 4 } else { 5 }) {
        0 => json!(["zero"]),
        1 => json!(["raw"]),
        2 => json!(["factor", r.gen_range(-3..=4)]),
        3 => json!(["offset", r.gen_range(-3..=3)]),
        _ => json!(["combined", (0..r.gen_range(1..=3)).map(|_| gen_rate(r, depth + 1)).collect::<Vec<_>>()]),
    }
}
fn gen_net(r: &mut rand::rngs::StdRng, depth: u32) -> Value {
    match r.gen_range(0..if depth > 1 { 5 } else { 6 }) {
        0 => json!(["zero"]),
        1 => json!(["edge", r.gen_range(0..=9)]),
        2 => json!(["turn", r.gen_range(0..=9)]),
        3 => json!(["edge_other", r.gen_range(1..=9)]),
        4 => json!(["turn_other", r.gen_range(1..=9)]),
        _ => json!(["combined", (0..r.gen_range(1..=3)).map(|_| gen_net(r, depth + 1)).collect::<Vec<_>>()]),
    }
}

/// largest magnitude a rate chain can produce from a state change of magnitude x (the specification computes in 32-bit
/// milli-cost: scenarios whose charge could exceed 1e6 cost units are not generated)
fn rate_bound(rate: &Value, x: f64) -> f64 {
    match rate[0].as_str().unwrap() {
        "zero" => 0.0,
        "raw" => x,
        "factor" => x * rate[1].as_f64().unwrap().abs(),
        "offset" => x + rate[1].as_f64().unwrap().abs(),
        _ => rate[1].as_array().unwrap().iter().fold(x, |acc, r| rate_bound(r, acc)),
    }
}
fn net_bound(net: &Value) -> f64 {
    match net[0].as_str().unwrap() {
        "zero" => 0.0,
        "combined" => net[1].as_array().unwrap().iter().map(net_bound).sum(),
        _ => net[1].as_f64().unwrap().abs(),
    }
}
fn charge_bound(s: &Value) -> f64 {
    let per: Vec<f64> = s["F"]
        .as_array()
        .unwrap()
        .iter()
        .map(|f| {
            let x = f["da"].as_f64().unwrap().abs() + f["dt"].as_f64().unwrap().abs();
            f["w"].as_f64().unwrap().abs() * (rate_bound(&f["rate"], x) + net_bound(&f["net"])) + 1.0
        })
        .collect();
    if s["agg"] == "sum" { per.iter().sum() } else { per.iter().product() }
}

pub fn main(args: &[String]) -> i32 {
    let mut out = Out::new();
    if has_flag(args, "--scenarios") {
        for s in read_scenarios() {
            if s.get("dir").is_none() {
                for d in ["fwd", "rev"] {
                    let mut t = s.clone();
                    t["dir"] = json!(d);
                    run_scenario(&mut out, &t);
                }
            } else {
                guarded(&mut out, |o| run_scenario(o, &s));
            }
        }
    } else {
        let n = arg_usize(args, "--random", 500);
        let mut r = rng(7);
        for _ in 0..n {
            let nf = r.gen_range(1..=5);
            let mut f = vec![];
            let mut wsum = 0;
            for _ in 0..nf {
                let w = r.gen_range(-2..=3);
                wsum += w;
                f.push(json!({"w": w, "rate": gen_rate(&mut r, 0), "net": gen_net(&mut r, 0),
                              "da": if r.gen_bool(0.5) {0} else {r.gen_range(-2..=3)}, "dt": r.gen_range(-4..=6)}));
            }
            if wsum == 0 {
                f[0]["w"] = json!(f[0]["w"].as_i64().unwrap() + 1);
            }
            let s = json!({"agg": if r.gen_bool(0.7) {"sum"} else {"mul"}, "prev": r.gen_bool(0.6),
                           "dir": if r.gen_bool(0.6) {"fwd"} else {"rev"}, "F": f, "omit_zero": r.gen_bool(0.4)});
            if charge_bound(&s) > 1.0e6 {
                continue;
            }
            guarded(&mut out, |o| run_scenario(o, &s));
        }
    }
    out.flush();
    0
}
