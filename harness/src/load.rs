//! C15: writes edge / vertex / per-edge table files (plain and gzip, explicit and scanned counts,
//! permuted / extra vertex columns, with and without trailing newline), loads them with the real
//! loaders and dumps the public accessors.
use crate::search::scratch_dir;
use crate::util::*;
use flate2::write::GzEncoder;
use flate2::Compression;
use rand::Rng;
use routee_compass_core::algorithm::search::direction::Direction;
use routee_compass_core::model::access::default::turn_delays::edge_heading::EdgeHeading;
use routee_compass_core::model::network::{graph::Graph, EdgeId, VertexId};
use routee_compass_core::model::unit::{as_f64::AsF64, Grade, Speed};
use routee_compass_core::util::fs::{read_decoders, read_utils};
use serde_json::{json, Value};
use std::io::Write;

pub fn write_file(path: &std::path::Path, content: &str, gzip: bool) {
    if gzip {
        let f = std::fs::File::create(path).unwrap();
        let mut enc = GzEncoder::new(f, Compression::default());
        enc.write_all(content.as_bytes()).unwrap();
        enc.finish().unwrap();
    } else {
        std::fs::write(path, content).unwrap();
    }
}

fn run_scenario(out: &mut Out, scn: &Value, n: usize) {
    out.scenario(scn);
    let dir = scratch_dir();
    let gzip = scn["gzip"].as_bool().unwrap_or(false);
    let explicit = scn["explicit"].as_bool().unwrap_or(false);
    let nl = scn["trailing_newline"].as_bool().unwrap_or(true);
    let nv = scn["nv"].as_u64().unwrap() as usize;
    let es = scn["E"].as_array().unwrap();
    let ext = if gzip { "csv.gz" } else { "csv" };
    // edge file
    let mut etxt = String::from("edge_id,src_vertex_id,dst_vertex_id,distance");
    for (i, e) in es.iter().enumerate() {
        etxt.push_str(&format!("\n{},{},{},{}", i, e[0], e[1], e[2]));
    }
    if nl {
        etxt.push('\n');
    }
    let epath = dir.join(format!("edges-{}.{}", n, ext));
    write_file(&epath, &etxt, gzip);
    // vertex file: column order and an extra column chosen by the scenario
    let cols: Vec<String> = scn["vcols"].as_array().unwrap().iter().map(|c| c.as_str().unwrap().to_string()).collect();
    let mut vtxt = cols.join(",");
    let coords = scn["coords"].as_array().unwrap();
    for (i, c) in coords.iter().enumerate() {
        let row: Vec<String> = cols
            .iter()
            .map(|col| match col.as_str() {
                "vertex_id" => format!("{}", i),
                "x" => format!("{:.4}", c[0].as_i64().unwrap() as f64 / 10000.0),
                "y" => format!("{:.4}", c[1].as_i64().unwrap() as f64 / 10000.0),
                _ => format!("extra{}", i),
            })
            .collect();
        vtxt.push_str(&format!("\n{}", row.join(",")));
    }
    if nl {
        vtxt.push('\n');
    }
    let vpath = dir.join(format!("vertices-{}.{}", n, ext));
    write_file(&vpath, &vtxt, gzip);
    let erows: Vec<Value> = es.iter().enumerate().map(|(i, e)| json!([i, e[0], e[1], e[2]])).collect();
    let vrows: Vec<Value> = coords.iter().enumerate().map(|(i, c)| json!([i, c[0], c[1]])).collect();
    out.event(json!({"ev": "Files", "erows": erows, "vrows": vrows, "nv": nv, "gzip": gzip, "explicit": explicit}));
    // every other scenario goes through the application's graph builder with a [graph] configuration object (explicit
    // counts given as n_edges / n_vertices, together or one of them only); the others call the loader directly
    let via_builder = n % 2 == 0;
    let g = if via_builder {
        let mut cfg = json!({"edge_list_input_file": epath.to_str().unwrap(), "vertex_list_input_file": vpath.to_str().unwrap(), "verbose": false});
        if explicit {
            if n % 3 != 1 {
                cfg["n_edges"] = json!(es.len());
            }
            if n % 3 != 2 {
                cfg["n_vertices"] = json!(nv);
            }
        }
        routee_compass::app::compass::config::graph_builder::DefaultGraphBuilder::build(&cfg).map_err(|e| e.to_string())
    } else {
        Graph::from_files(&epath, &vpath, if explicit { Some(es.len()) } else { None }, if explicit { Some(nv) } else { None }, Some(false)).map_err(|e| e.to_string())
    };
    match g {
        Err(e) => out.event(json!({"ev": "LoadError", "msg": e})),
        Ok(g) => {
            let edges: Vec<Value> = g
                .edge_ids()
                .map(|id| {
                    let e = g.get_edge(&id).unwrap();
                    json!([e.edge_id.0, e.src_vertex_id.0, e.dst_vertex_id.0, scaled(e.distance.as_f64(), 1.0)])
                })
                .collect();
            let ids = |v: Vec<EdgeId>| -> Vec<usize> { v.iter().map(|e| e.0).collect() };
            let outv: Vec<Vec<usize>> = g.vertex_ids().map(|v| ids(g.out_edges(&v))).collect();
            let innv: Vec<Vec<usize>> = g.vertex_ids().map(|v| ids(g.in_edges(&v))).collect();
            let outfwd: Vec<Vec<usize>> = g.vertex_ids().map(|v| ids(g.incident_edges(&v, &Direction::Forward))).collect();
            let inrev: Vec<Vec<usize>> = g.vertex_ids().map(|v| ids(g.incident_edges(&v, &Direction::Reverse))).collect();
            let verts: Vec<Value> = g
                .vertex_ids()
                .map(|v| {
                    let x = g.get_vertex(&v).unwrap();
                    json!([x.vertex_id.0, scaled(x.coordinate.0.x as f64, 10000.0), scaled(x.coordinate.0.y as f64, 10000.0)])
                })
                .collect();
            let srcs: Vec<usize> = g.edge_ids().map(|e| g.src_vertex_id(&e).unwrap().0).collect();
            let dsts: Vec<usize> = g.edge_ids().map(|e| g.dst_vertex_id(&e).unwrap().0).collect();
            out.event(json!({"ev": "Loaded", "ne": g.n_edges(), "nv": g.n_vertices(), "edges": edges, "out": outv, "inn": innv,
                             "outfwd": outfwd, "inrev": inrev, "verts": verts, "srcs": srcs, "dsts": dsts}));
        }
    }
    // every third scenario: the same files behind a whole application; the network is read back through the accessors
    // the application offers by id (SearchAppGraphOps: origin, destination, length in a requested unit, incident edges)
    if n % 3 == 0 && !es.is_empty() {
        use routee_compass::app::compass::compass_app::CompassApp;
        use routee_compass::app::search::search_app_graph_ops::SearchAppGraphOps;
        use routee_compass_core::model::network::VertexId;
        use routee_compass_core::model::unit::DistanceUnit;
        let mut toml = String::from("parallelism = 1\n");
        toml.push_str(&format!("[graph]\nedge_list_input_file = \"{}\"\nvertex_list_input_file = \"{}\"\nverbose = false\n", epath.to_str().unwrap(), vpath.to_str().unwrap()));
        toml.push_str("[algorithm]\ntype = \"a*\"\n[traversal]\ntype = \"distance\"\ndistance_unit = \"meters\"\n[access]\ntype = \"no_access_model\"\n");
        toml.push_str("[cost]\ncost_aggregation = \"sum\"\n[cost.weights]\ndistance = 1\n[cost.vehicle_rates.distance]\ntype = \"raw\"\n");
        toml.push_str("[frontier]\ntype = \"no_restriction\"\n[termination]\ntype = \"iterations\"\nlimit = 1000\n[plugin]\ninput_plugins = []\noutput_plugins = []\n");
        let cpath = dir.join(format!("graph-app-{}.toml", n));
        std::fs::write(&cpath, toml).unwrap();
        match CompassApp::try_from(cpath.as_path()) {
            Err(e) => out.event(json!({"ev": "AppGraphError", "msg": e.to_string()})),
            Ok(app) => {
                let sa = &app.search_app;
                let mut edges = vec![];
                let (mut m, mut km) = (vec![], vec![]);
                for i in 0..es.len() {
                    let id = EdgeId(i);
                    let o = sa.get_edge_origin(&id).map(|v| v.0 as i64).unwrap_or(-1);
                    let d = sa.get_edge_destination(&id).map(|v| v.0 as i64).unwrap_or(-1);
                    let len = sa.get_edge_distance(&id, None).map(|x| scaled(x.as_f64(), 1.0)).unwrap_or(-1);
                    edges.push(json!([i, o, d, len]));
                    m.push(sa.get_edge_distance(&id, Some(DistanceUnit::Meters)).map(|x| scaled(x.as_f64(), 1.0)).unwrap_or(-1));
                    km.push(sa.get_edge_distance(&id, Some(DistanceUnit::Kilometers)).map(|x| scaled(x.as_f64(), 1000.0)).unwrap_or(-1));
                }
                let ids = |v: Vec<EdgeId>| -> Vec<usize> { v.iter().map(|e| e.0).collect() };
                let outv: Vec<Vec<usize>> = (0..nv).map(|v| ids(sa.get_incident_edge_ids(&VertexId(v), &Direction::Forward))).collect();
                let innv: Vec<Vec<usize>> = (0..nv).map(|v| ids(sa.get_incident_edge_ids(&VertexId(v), &Direction::Reverse))).collect();
                let beyond = sa.get_edge_origin(&EdgeId(es.len())).is_err() && sa.get_edge_distance(&EdgeId(es.len()), None).is_err();
                out.event(json!({"ev": "AppGraph", "edges": edges, "m": m, "km_milli": km, "out": outv, "inn": innv, "beyond_is_error": beyond}));
            }
        }
    }
    // per-edge tables: one row per edge, aligned by row
    let ne = es.len();
    if ne > 0 {
        let speeds: Vec<i64> = (0..ne).map(|i| 5 + ((i * 7 + n) % 90) as i64).collect();
        let p = dir.join(format!("speeds-{}.{}", n, if gzip { "txt.gz" } else { "txt" }));
        write_file(&p, &(speeds.iter().map(|s| s.to_string()).collect::<Vec<_>>().join("\n") + if nl { "\n" } else { "" }), gzip);
        let loaded: Result<Box<[Speed]>, _> = read_utils::read_raw_file(&p, read_decoders::default, None);
        out.event(json!({"ev": "Table", "kind": "speed", "written": speeds,
                         "loaded": loaded.map(|l| l.iter().map(|s| scaled(s.as_f64(), 1.0)).collect::<Vec<_>>()).unwrap_or_default()}));
        let grades: Vec<i64> = (0..ne).map(|i| ((i * 13 + n) % 21) as i64 - 10).collect();
        let p = dir.join(format!("grades-{}.{}", n, if gzip { "txt.gz" } else { "txt" }));
        write_file(&p, &(grades.iter().map(|s| s.to_string()).collect::<Vec<_>>().join("\n") + if nl { "\n" } else { "" }), gzip);
        let loaded: Result<Box<[Grade]>, _> = read_utils::read_raw_file(&p, read_decoders::default, None);
        out.event(json!({"ev": "Table", "kind": "grade", "written": grades,
                         "loaded": loaded.map(|l| l.iter().map(|s| scaled(s.as_f64(), 1.0)).collect::<Vec<_>>()).unwrap_or_default()}));
        let classes: Vec<i64> = (0..ne).map(|i| ((i * 5 + n) % 7) as i64).collect();
        let p = dir.join(format!("classes-{}.{}", n, if gzip { "txt.gz" } else { "txt" }));
        write_file(&p, &(classes.iter().map(|s| s.to_string()).collect::<Vec<_>>().join("\n") + if nl { "\n" } else { "" }), gzip);
        let loaded: Result<Box<[u8]>, _> = read_utils::read_raw_file(&p, read_decoders::u8, None);
        out.event(json!({"ev": "Table", "kind": "class", "written": classes,
                         "loaded": loaded.map(|l| l.iter().map(|s| *s as i64).collect::<Vec<_>>()).unwrap_or_default()}));
        let heads: Vec<(i64, i64)> = (0..ne).map(|i| (((i * 37 + n) % 360) as i64, ((i * 91 + n) % 360) as i64)).collect();
        let p = dir.join(format!("headings-{}.{}", n, ext));
        let mut txt = String::from("arrival_heading,departure_heading");
        for h in &heads {
            txt.push_str(&format!("\n{},{}", h.0, h.1));
        }
        if nl {
            txt.push('\n');
        }
        write_file(&p, &txt, gzip);
        let loaded: Result<Box<[EdgeHeading]>, _> = read_utils::from_csv(&p, true, None);
        out.event(json!({"ev": "Table", "kind": "heading", "written": heads.iter().map(|h| json!([h.0, h.1])).collect::<Vec<_>>(),
                         "loaded": loaded.map(|l| l.iter().map(|h| json!([h.start_heading(), h.end_heading()])).collect::<Vec<_>>()).unwrap_or_default()}));
    }
}

fn gen(r: &mut rand::rngs::StdRng) -> Value {
    let kind = r.gen_range(0..4);
    let nv = if kind == 0 { r.gen_range(2..=4) } else { r.gen_range(1..=14) };
    let mut e: Vec<Value> = vec![];
    match kind {
        0 => {
            // star / fan with high in- and out-degree at vertex 0
            for _ in 0..r.gen_range(5..=12) {
                let o = r.gen_range(0..nv);
                if r.gen_bool(0.5) { e.push(json!([0, o, r.gen_range(1..500)])); } else { e.push(json!([o, 0, r.gen_range(1..500)])); }
            }
        }
        _ => {
            for _ in 0..r.gen_range(0..=(nv * 3)) {
                let s = r.gen_range(0..nv);
                let d = if r.gen_bool(0.06) { s } else { r.gen_range(0..nv) };
                e.push(json!([s, d, r.gen_range(1..2000)]));
                if r.gen_bool(0.08) { e.push(json!([s, d, r.gen_range(1..2000)])); }
            }
        }
    }
    let coords: Vec<Value> = (0..nv).map(|_| json!([r.gen_range(-1_050_000..-1_040_000), r.gen_range(390_000..400_000)])).collect();
    let mut cols = vec!["vertex_id", "x", "y"];
    if r.gen_bool(0.5) { cols.insert(r.gen_range(0..=3), "name"); }
    for i in (1..cols.len()).rev() { if r.gen_bool(0.6) { cols.swap(i, r.gen_range(0..=i)); } }
    json!({"nv": nv, "E": e, "coords": coords, "gzip": r.gen_bool(0.4), "explicit": r.gen_bool(0.5),
           "trailing_newline": r.gen_bool(0.6), "vcols": cols})
}

pub fn main(args: &[String]) -> i32 {
    let mut out = Out::new();
    if has_flag(args, "--scenarios") {
        for (i, s) in read_scenarios().iter().enumerate() {
            run_scenario(&mut out, s, i);
        }
    } else {
        let n = arg_usize(args, "--random", 200);
        let mut r = rng(15);
        for i in 0..n {
            let s = gen(&mut r);
            guarded(&mut out, |o| run_scenario(o, &s, i % 8));
        }
    }
    out.flush();
    0
}
