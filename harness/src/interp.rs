//! C14: the generic linear interpolators on integer grids, and the interpolated speed/grade model
//! over the bundled vehicle models (corner values queried from the underlying model and logged).
use crate::units::sci;
use crate::util::*;
use rand::rngs::StdRng;
use rand::Rng;
use routee_compass_core::model::unit::{as_f64::AsF64, Distance, DistanceUnit, EnergyRateUnit, Grade, GradeUnit, Speed, SpeedUnit};
use routee_compass_powertrain::routee::prediction::interpolation::interp::{Interp1D, Interp2D, Interp3D, InterpND, Interpolator, Strategy};
use routee_compass_powertrain::routee::prediction::interpolation::utils::linspace;
use routee_compass_powertrain::routee::prediction::model_type::ModelType;
use routee_compass_powertrain::routee::prediction::{load_prediction_model, PredictionModelRecord};
use serde_json::{json, Value};

fn err_sci() -> Value {
    json!({"s": 9, "m": 0, "e": 0})
}
fn res(r: Result<f64, String>) -> Value {
    match r {
        Ok(x) if x.is_finite() => sci(x),
        _ => err_sci(),
    }
}

fn run_generic(out: &mut Out, scn: &Value) {
    out.scenario(scn);
    let axes: Vec<Vec<f64>> = scn["axes"].as_array().unwrap().iter().map(|a| a.as_array().unwrap().iter().map(|x| x.as_f64().unwrap()).collect()).collect();
    let n = axes.len();
    let p: Vec<f64> = scn["p"].as_array().unwrap().iter().map(|x| x.as_f64().unwrap()).collect();
    let f = |v: &Value| v.as_f64().unwrap();
    let specific: Result<Interpolator, String> = match n {
        1 => Interp1D::new(axes[0].clone(), scn["tab"].as_array().unwrap().iter().map(f).collect()).map(Interpolator::Interp1D),
        2 => Interp2D::new(axes[0].clone(), axes[1].clone(), scn["tab"].as_array().unwrap().iter().map(|r| r.as_array().unwrap().iter().map(f).collect()).collect()).map(Interpolator::Interp2D),
        _ => Interp3D::new(
            axes[0].clone(), axes[1].clone(), axes[2].clone(),
            scn["tab"].as_array().unwrap().iter().map(|a| a.as_array().unwrap().iter().map(|r| r.as_array().unwrap().iter().map(f).collect()).collect()).collect(),
        ).map(Interpolator::Interp3D),
    };
    // the same data as an N-d array
    fn flat(v: &Value, out: &mut Vec<f64>) {
        match v.as_array() {
            Some(a) => a.iter().for_each(|x| flat(x, out)),
            None => out.push(v.as_f64().unwrap()),
        }
    }
    let mut data = vec![];
    flat(&scn["tab"], &mut data);
    let shape: Vec<usize> = axes.iter().map(|a| a.len()).collect();
    let nd = ndarray::ArrayD::from_shape_vec(ndarray::IxDyn(&shape), data).map_err(|e| e.to_string()).and_then(|arr| InterpND::new(axes.clone(), arr)).map(Interpolator::InterpND);
    let r = specific.and_then(|i| i.interpolate(&p, &Strategy::Linear));
    let rn = nd.and_then(|i| i.interpolate(&p, &Strategy::Linear));
    out.event(json!({"ev": "Interp", "axes": scn["axes"], "tab": scn["tab"], "p": scn["p"], "r": res(r), "rn": res(rn)}));
}

fn gen_generic(r: &mut StdRng) -> Value {
    let n = r.gen_range(1..=3);
    let mut axes = vec![];
    for _ in 0..n {
        let len = r.gen_range(2..=5);
        let mut a = vec![r.gen_range(-6..6i64) * 2];
        for _ in 1..len {
            let last = *a.last().unwrap();
            a.push(last + 2 * r.gen_range(1..=4));
        }
        axes.push(a);
    }
    fn table(r: &mut StdRng, axes: &[Vec<i64>], d: usize, lin: &Option<Vec<i64>>, idx: &mut Vec<usize>) -> Value {
        if d == axes.len() {
            return match lin {
                // a multilinear function of the coordinates
                Some(k) => {
                    let x: Vec<i64> = idx.iter().enumerate().map(|(i, j)| axes[i][*j]).collect();
                    let mut v = k[0] + k[1] * x[0];
                    if x.len() >= 2 { v += k[2] * x[1] + k[3] * x[0] * x[1]; }
                    if x.len() >= 3 { v += k[4] * x[2] + k[5] * x[0] * x[1] * x[2]; }
                    json!(v)
                }
                None => json!(r.gen_range(-50..200i64)),
            };
        }
        let mut row = vec![];
        for j in 0..axes[d].len() {
            idx.push(j);
            row.push(table(r, axes, d + 1, lin, idx));
            idx.pop();
        }
        json!(row)
    }
    let lin = if r.gen_bool(0.3) { Some((0..6).map(|_| r.gen_range(-3..=3i64)).collect()) } else { None };
    let tab = table(r, &axes, 0, &lin, &mut vec![]);
    let p: Vec<i64> = axes
        .iter()
        .map(|a| match r.gen_range(0..10) {
            0 => a[0],
            1 => *a.last().unwrap(),
            2 => a[r.gen_range(0..a.len())],
            3 => a[0] - r.gen_range(1..4),
            4 => *a.last().unwrap() + r.gen_range(1..4),
            _ => r.gen_range(a[0]..=*a.last().unwrap()),
        })
        .collect();
    json!({"axes": axes, "tab": tab, "p": p})
}

// ---------------------------------------------------------------------------------------------
struct Veh {
    file: &'static str,
    rate: EnergyRateUnit,
}
const VEHICLES: [Veh; 4] = [
    Veh { file: "Toyota_Camry.bin", rate: EnergyRateUnit::GallonsGasolinePerMile },
    Veh { file: "2017_CHEVROLET_Bolt.bin", rate: EnergyRateUnit::KilowattHoursPerMile },
    Veh { file: "2016_CHEVROLET_Volt_Charge_Depleting.bin", rate: EnergyRateUnit::KilowattHoursPerMile },
    Veh { file: "2016_CHEVROLET_Volt_Charge_Sustaining.bin", rate: EnergyRateUnit::GallonsGasolinePerMile },
];

fn model_path(file: &str) -> std::path::PathBuf {
    std::path::PathBuf::from("/repo/rust/routee-compass-powertrain/src/routee/test").join(file)
}

fn rate_of(m: &PredictionModelRecord, s: f64, g: f64) -> Result<f64, String> {
    // energy for one unit of the rate's distance = the rate
    let du = m.energy_rate_unit.associated_distance_unit();
    m.predict((Speed::new(s), m.speed_unit), (Grade::new(g), m.grade_unit), (Distance::new(1.0), du))
        .map(|(e, _)| e.as_f64())
        .map_err(|e| e.to_string())
}

fn run_isg(out: &mut Out, r: &mut StdRng, n: usize) {
    for v in VEHICLES.iter() {
        let (slo, shi, sb) = ([0.0, 5.0][r.gen_range(0..2)], [80.0, 100.0][r.gen_range(0..2)], r.gen_range(2..=25));
        let (glo, ghi, gb) = ([-0.2, -0.1][r.gen_range(0..2)], [0.2, 0.15][r.gen_range(0..2)], r.gen_range(2..=21));
        let mt = ModelType::Interpolate {
            underlying_model_type: Box::new(ModelType::Smartcore),
            speed_lower_bound: Speed::new(slo), speed_upper_bound: Speed::new(shi), speed_bins: sb,
            grade_lower_bound: Grade::new(glo), grade_upper_bound: Grade::new(ghi), grade_bins: gb,
        };
        let p = model_path(v.file);
        // the unit the model's speed feature is declared in varies (interpolated and underlying model alike), and so - for
        // electric rates - does the distance unit of the rate: speed unit and rate unit need not share a distance unit
        let msu = [SpeedUnit::MilesPerHour, SpeedUnit::KilometersPerHour, SpeedUnit::MetersPerSecond][r.gen_range(0..3)];
        let rate = if v.rate == EnergyRateUnit::KilowattHoursPerMile {
            [EnergyRateUnit::KilowattHoursPerMile, EnergyRateUnit::KilowattHoursPerKilometer, EnergyRateUnit::KilowattHoursPerMeter][r.gen_range(0..3)]
        } else {
            v.rate
        };
        let interp = load_prediction_model("interp".to_string(), &p, mt, msu, GradeUnit::Decimal, rate, None, None, None).expect("interp model");
        let under = load_prediction_model("under".to_string(), &p, ModelType::Smartcore, msu, GradeUnit::Decimal, rate, None, None, None).expect("underlying model");
        let sx = linspace(slo, shi, sb);
        let gx = linspace(glo, ghi, gb);
        for _ in 0..n {
            // a point inside, on a grid line, on the boundary, or outside
            let pick = |r: &mut StdRng, ax: &[f64]| -> (f64, bool) {
                let (lo, hi) = (ax[0], *ax.last().unwrap());
                match r.gen_range(0..10) {
                    0 => (ax[r.gen_range(0..ax.len())], true),
                    1 => (hi, true),
                    2 => (lo, true),
                    3 => (lo - (hi - lo) * r.gen_range(0.01..0.5), false),
                    4 => (hi + (hi - lo) * r.gen_range(0.01..0.5), false),
                    _ => (r.gen_range(lo..hi), false),
                }
            };
            let (s, s_grid) = pick(r, &sx);
            let (g, g_grid) = pick(r, &gx);
            let scn = json!({"vehicle": v.file, "speed_bins": sb, "grade_bins": gb, "bounds": [slo, shi, glo, ghi], "speed": s, "grade": g});
            out.scenario(&scn);
            let (sc, gc) = (s.max(sx[0]).min(*sx.last().unwrap()), g.max(gx[0]).min(*gx.last().unwrap()));
            // surrounding cell of the clamped point
            let cell = |ax: &[f64], x: f64| -> usize {
                let mut i = 0;
                while i + 2 < ax.len() && ax[i + 1] <= x { i += 1; }
                i
            };
            let (i, j) = (cell(&sx, sc), cell(&gx, gc));
            // on a grid point the first "corner" is that point itself
            let near = |ax: &[f64], x: f64, i: usize| -> usize { if (ax[i + 1] - x).abs() < (ax[i] - x).abs() { i + 1 } else { i } };
            let on_grid = s_grid && g_grid;
            let (i0, j0) = if on_grid { (near(&sx, sc, i), near(&gx, gc, j)) } else { (i, j) };
            let (i1, j1) = (if i0 == i { i + 1 } else { i }, if j0 == j { j + 1 } else { j });
            let corners: Vec<Value> = [(i0, j0), (i0, j1), (i1, j0), (i1, j1)].iter().map(|(a, b)| res(rate_of(&under, sx[*a], gx[*b]))).collect();
            let y = rate_of(&interp, s, g);
            let dy_s = (sx[1] - sx[0]) * 1e-7;
            let dy_g = (gx[1] - gx[0]) * 1e-7;
            // the same point in other input units
            let du = rate.associated_distance_unit();
            let other = if matches!(msu, SpeedUnit::KilometersPerHour) { SpeedUnit::MilesPerHour } else { SpeedUnit::KilometersPerHour };
            let y_units = interp
                .predict((msu.convert(&Speed::new(s), &other), other),
                         (GradeUnit::Decimal.convert(&Grade::new(g), &GradeUnit::Percent), GradeUnit::Percent), (Distance::new(1.0), du))
                .map(|(e, _)| e.as_f64()).map_err(|e| e.to_string());
            out.event(json!({"ev": "ISG", "ok": y.is_ok(), "y": res(y), "corners": corners, "on_grid": on_grid,
                "y_clamped": res(rate_of(&interp, sc, gc)),
                "y_plus": res(rate_of(&interp, sc + dy_s, gc + dy_g)), "y_minus": res(rate_of(&interp, sc - dy_s, gc - dy_g)),
                "y_units": res(y_units), "du": format!("{:?}", DistanceUnit::Miles == du)}));
        }
    }
}

pub fn main(args: &[String]) -> i32 {
    let mut out = Out::new();
    if has_flag(args, "--scenarios") {
        for s in read_scenarios() {
            guarded(&mut out, |o| run_generic(o, &s));
        }
    } else {
        let n = arg_usize(args, "--random", 500);
        let mut r = rng(14);
        for _ in 0..n {
            let s = gen_generic(&mut r);
            guarded(&mut out, |o| run_generic(o, &s));
        }
        let m = arg_usize(args, "--isg", 60);
        if m > 0 {
            guarded(&mut out, |o| run_isg(o, &mut r, m));
        }
    }
    out.flush();
    0
}
