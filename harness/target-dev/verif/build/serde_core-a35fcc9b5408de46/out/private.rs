#[doc(hidden)]
pub mod __private229 {
    #[doc(hidden)]
    pub use crate::private::*;
}
