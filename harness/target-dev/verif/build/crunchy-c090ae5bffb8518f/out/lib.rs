
/// Unroll the given for loop
///
/// Example:
///
/// ```ignore
/// unroll! {
///   for i in 0..5 {
///     println!("Iteration {}", i);
///   }
/// }
/// ```
///
/// will expand into:
///
/// ```ignore
/// { println!("Iteration {}", 0); }
/// { println!("Iteration {}", 1); }
/// { println!("Iteration {}", 2); }
/// { println!("Iteration {}", 3); }
/// { println!("Iteration {}", 4); }
/// ```
#[macro_export]
macro_rules! unroll {
    (for $v:ident in 0..0 $c:block) => {};

    (for $v:ident < $max:tt in ($start:tt..$end:tt).step_by($val:expr) {$($c:tt)*}) => {
        {
            let step = $val;
            let start = $start;
            let end = start + ($end - start) / step;
            unroll! {
                for val < $max in start..end {
                    let $v: usize = ((val - start) * step) + start;

                    $($c)*
                }
            }
        }
    };

    (for $v:ident in ($start:tt..$end:tt).step_by($val:expr) {$($c:tt)*}) => {
        unroll! {
            for $v < $end in ($start..$end).step_by($val) {$($c)*}
        }
    };

    (for $v:ident in ($start:tt..$end:tt) {$($c:tt)*}) => {
        unroll!{
            for $v in $start..$end {$($c)*}
        }
    };

    (for $v:ident in $start:tt..$end:tt {$($c:tt)*}) => {
        #[allow(non_upper_case_globals)]
        #[allow(unused_comparisons)]
        {
            unroll!(@$v, 0, $end, {
                    if $v >= $start {$($c)*}
                }
            );
        }
    };

    (for $v:ident < $max:tt in $start:tt..$end:tt $c:block) => {
        #[allow(non_upper_case_globals)]
        {
            let range = $start..$end;
            assert!(
                $max >= range.end,
                "`{}` out of range `{:?}`",
                stringify!($max),
                range,
            );
            unroll!(
                @$v,
                0,
                $max,
                {
                    if $v >= range.start && $v < range.end {
                        $c
                    }
                }
            );
        }
    };

    (for $v:ident in 0..$end:tt {$($statement:tt)*}) => {
        #[allow(non_upper_case_globals)]
        { unroll!(@$v, 0, $end, {$($statement)*}); }
    };

    (@$v:ident, $a:expr, 0, $c:block) => {
        { const $v: usize = $a; $c }
    };

    (@$v:ident, $a:expr, 1, $c:block) => {
        { const $v: usize = $a; $c }
    };

    (@$v:ident, $a:expr, 2, $c:block) => {
        { const $v: usize = $a; $c }
        { const $v: usize = $a + 1; $c }
    };

    (@$v:ident, $a:expr, 3, $c:block) => {
        { const $v: usize = $a; $c }
        { const $v: usize = $a + 1; $c }
        { const $v: usize = $a + 2; $c }
    };

    (@$v:ident, $a:expr, 4, $c:block) => {
        { const $v: usize = $a; $c }
        { const $v: usize = $a + 1; $c }
        { const $v: usize = $a + 2; $c }
        { const $v: usize = $a + 3; $c }
    };

    (@$v:ident, $a:expr, 5, $c:block) => {
        { const $v: usize = $a; $c }
        { const $v: usize = $a + 1; $c }
        { const $v: usize = $a + 2; $c }
        { const $v: usize = $a + 3; $c }
        { const $v: usize = $a + 4; $c }
    };

    (@$v:ident, $a:expr, 6, $c:block) => {
        { const $v: usize = $a; $c }
        { const $v: usize = $a + 1; $c }
        { const $v: usize = $a + 2; $c }
        { const $v: usize = $a + 3; $c }
        { const $v: usize = $a + 4; $c }
        { const $v: usize = $a + 5; $c }
    };

    (@$v:ident, $a:expr, 7, $c:block) => {
        { const $v: usize = $a; $c }
        { const $v: usize = $a + 1; $c }
        { const $v: usize = $a + 2; $c }
        { const $v: usize = $a + 3; $c }
        { const $v: usize = $a + 4; $c }
        { const $v: usize = $a + 5; $c }
        { const $v: usize = $a + 6; $c }
    };

    (@$v:ident, $a:expr, 8, $c:block) => {
        { const $v: usize = $a; $c }
        { const $v: usize = $a + 1; $c }
        { const $v: usize = $a + 2; $c }
        { const $v: usize = $a + 3; $c }
        { const $v: usize = $a + 4; $c }
        { const $v: usize = $a + 5; $c }
        { const $v: usize = $a + 6; $c }
        { const $v: usize = $a + 7; $c }
    };

    (@$v:ident, $a:expr, 9, $c:block) => {
        { const $v: usize = $a; $c }
        { const $v: usize = $a + 1; $c }
        { const $v: usize = $a + 2; $c }
        { const $v: usize = $a + 3; $c }
        { const $v: usize = $a + 4; $c }
        { const $v: usize = $a + 5; $c }
        { const $v: usize = $a + 6; $c }
        { const $v: usize = $a + 7; $c }
        { const $v: usize = $a + 8; $c }
    };

    (@$v:ident, $a:expr, 10, $c:block) => {
        { const $v: usize = $a; $c }
        { const $v: usize = $a + 1; $c }
        { const $v: usize = $a + 2; $c }
        { const $v: usize = $a + 3; $c }
        { const $v: usize = $a + 4; $c }
        { const $v: usize = $a + 5; $c }
        { const $v: usize = $a + 6; $c }
        { const $v: usize = $a + 7; $c }
        { const $v: usize = $a + 8; $c }
        { const $v: usize = $a + 9; $c }
    };

    (@$v:ident, $a:expr, 11, $c:block) => {
        { const $v: usize = $a; $c }
        { const $v: usize = $a + 1; $c }
        { const $v: usize = $a + 2; $c }
        { const $v: usize = $a + 3; $c }
        { const $v: usize = $a + 4; $c }
        { const $v: usize = $a + 5; $c }
        { const $v: usize = $a + 6; $c }
        { const $v: usize = $a + 7; $c }
        { const $v: usize = $a + 8; $c }
        { const $v: usize = $a + 9; $c }
        { const $v: usize = $a + 10; $c }
    };

    (@$v:ident, $a:expr, 12, $c:block) => {
        { const $v: usize = $a; $c }
        { const $v: usize = $a + 1; $c }
        { const $v: usize = $a + 2; $c }
        { const $v: usize = $a + 3; $c }
        { const $v: usize = $a + 4; $c }
        { const $v: usize = $a + 5; $c }
        { const $v: usize = $a + 6; $c }
        { const $v: usize = $a + 7; $c }
        { const $v: usize = $a + 8; $c }
        { const $v: usize = $a + 9; $c }
        { const $v: usize = $a + 10; $c }
        { const $v: usize = $a + 11; $c }
    };

    (@$v:ident, $a:expr, 13, $c:block) => {
        { const $v: usize = $a; $c }
        { const $v: usize = $a + 1; $c }
        { const $v: usize = $a + 2; $c }
        { const $v: usize = $a + 3; $c }
        { const $v: usize = $a + 4; $c }
        { const $v: usize = $a + 5; $c }
        { const $v: usize = $a + 6; $c }
        { const $v: usize = $a + 7; $c }
        { const $v: usize = $a + 8; $c }
        { const $v: usize = $a + 9; $c }
        { const $v: usize = $a + 10; $c }
        { const $v: usize = $a + 11; $c }
        { const $v: usize = $a + 12; $c }
    };

    (@$v:ident, $a:expr, 14, $c:block) => {
        { const $v: usize = $a; $c }
        { const $v: usize = $a + 1; $c }
        { const $v: usize = $a + 2; $c }
        { const $v: usize = $a + 3; $c }
        { const $v: usize = $a + 4; $c }
        { const $v: usize = $a + 5; $c }
        { const $v: usize = $a + 6; $c }
        { const $v: usize = $a + 7; $c }
        { const $v: usize = $a + 8; $c }
        { const $v: usize = $a + 9; $c }
        { const $v: usize = $a + 10; $c }
        { const $v: usize = $a + 11; $c }
        { const $v: usize = $a + 12; $c }
        { const $v: usize = $a + 13; $c }
    };

    (@$v:ident, $a:expr, 15, $c:block) => {
        { const $v: usize = $a; $c }
        { const $v: usize = $a + 1; $c }
        { const $v: usize = $a + 2; $c }
        { const $v: usize = $a + 3; $c }
        { const $v: usize = $a + 4; $c }
        { const $v: usize = $a + 5; $c }
        { const $v: usize = $a + 6; $c }
        { const $v: usize = $a + 7; $c }
        { const $v: usize = $a + 8; $c }
        { const $v: usize = $a + 9; $c }
        { const $v: usize = $a + 10; $c }
        { const $v: usize = $a + 11; $c }
        { const $v: usize = $a + 12; $c }
        { const $v: usize = $a + 13; $c }
        { const $v: usize = $a + 14; $c }
    };

    (@$v:ident, $a:expr, 16, $c:block) => {
        { const $v: usize = $a; $c }
        { const $v: usize = $a + 1; $c }
        { const $v: usize = $a + 2; $c }
        { const $v: usize = $a + 3; $c }
        { const $v: usize = $a + 4; $c }
        { const $v: usize = $a + 5; $c }
        { const $v: usize = $a + 6; $c }
        { const $v: usize = $a + 7; $c }
        { const $v: usize = $a + 8; $c }
        { const $v: usize = $a + 9; $c }
        { const $v: usize = $a + 10; $c }
        { const $v: usize = $a + 11; $c }
        { const $v: usize = $a + 12; $c }
        { const $v: usize = $a + 13; $c }
        { const $v: usize = $a + 14; $c }
        { const $v: usize = $a + 15; $c }
    };

    (@$v:ident, $a:expr, 17, $c:block) => {
        unroll!(@$v, $a, 16, $c);
        { const $v: usize = $a + 16; $c }
    };

    (@$v:ident, $a:expr, 18, $c:block) => {
        unroll!(@$v, $a, 9, $c);
        unroll!(@$v, $a + 9, 9, $c);
    };

    (@$v:ident, $a:expr, 19, $c:block) => {
        unroll!(@$v, $a, 18, $c);
        { const $v: usize = $a + 18; $c }
    };

    (@$v:ident, $a:expr, 20, $c:block) => {
        unroll!(@$v, $a, 10, $c);
        unroll!(@$v, $a + 10, 10, $c);
    };

    (@$v:ident, $a:expr, 21, $c:block) => {
        unroll!(@$v, $a, 20, $c);
        { const $v: usize = $a + 20; $c }
    };

    (@$v:ident, $a:expr, 22, $c:block) => {
        unroll!(@$v, $a, 11, $c);
        unroll!(@$v, $a + 11, 11, $c);
    };

    (@$v:ident, $a:expr, 23, $c:block) => {
        unroll!(@$v, $a, 22, $c);
        { const $v: usize = $a + 22; $c }
    };

    (@$v:ident, $a:expr, 24, $c:block) => {
        unroll!(@$v, $a, 12, $c);
        unroll!(@$v, $a + 12, 12, $c);
    };

    (@$v:ident, $a:expr, 25, $c:block) => {
        unroll!(@$v, $a, 24, $c);
        { const $v: usize = $a + 24; $c }
    };

    (@$v:ident, $a:expr, 26, $c:block) => {
        unroll!(@$v, $a, 13, $c);
        unroll!(@$v, $a + 13, 13, $c);
    };

    (@$v:ident, $a:expr, 27, $c:block) => {
        unroll!(@$v, $a, 26, $c);
        { const $v: usize = $a + 26; $c }
    };

    (@$v:ident, $a:expr, 28, $c:block) => {
        unroll!(@$v, $a, 14, $c);
        unroll!(@$v, $a + 14, 14, $c);
    };

    (@$v:ident, $a:expr, 29, $c:block) => {
        unroll!(@$v, $a, 28, $c);
        { const $v: usize = $a + 28; $c }
    };

    (@$v:ident, $a:expr, 30, $c:block) => {
        unroll!(@$v, $a, 15, $c);
        unroll!(@$v, $a + 15, 15, $c);
    };

    (@$v:ident, $a:expr, 31, $c:block) => {
        unroll!(@$v, $a, 30, $c);
        { const $v: usize = $a + 30; $c }
    };

    (@$v:ident, $a:expr, 32, $c:block) => {
        unroll!(@$v, $a, 16, $c);
        unroll!(@$v, $a + 16, 16, $c);
    };

    (@$v:ident, $a:expr, 33, $c:block) => {
        unroll!(@$v, $a, 32, $c);
        { const $v: usize = $a + 32; $c }
    };

    (@$v:ident, $a:expr, 34, $c:block) => {
        unroll!(@$v, $a, 17, $c);
        unroll!(@$v, $a + 17, 17, $c);
    };

    (@$v:ident, $a:expr, 35, $c:block) => {
        unroll!(@$v, $a, 34, $c);
        { const $v: usize = $a + 34; $c }
    };

    (@$v:ident, $a:expr, 36, $c:block) => {
        unroll!(@$v, $a, 18, $c);
        unroll!(@$v, $a + 18, 18, $c);
    };

    (@$v:ident, $a:expr, 37, $c:block) => {
        unroll!(@$v, $a, 36, $c);
        { const $v: usize = $a + 36; $c }
    };

    (@$v:ident, $a:expr, 38, $c:block) => {
        unroll!(@$v, $a, 19, $c);
        unroll!(@$v, $a + 19, 19, $c);
    };

    (@$v:ident, $a:expr, 39, $c:block) => {
        unroll!(@$v, $a, 38, $c);
        { const $v: usize = $a + 38; $c }
    };

    (@$v:ident, $a:expr, 40, $c:block) => {
        unroll!(@$v, $a, 20, $c);
        unroll!(@$v, $a + 20, 20, $c);
    };

    (@$v:ident, $a:expr, 41, $c:block) => {
        unroll!(@$v, $a, 40, $c);
        { const $v: usize = $a + 40; $c }
    };

    (@$v:ident, $a:expr, 42, $c:block) => {
        unroll!(@$v, $a, 21, $c);
        unroll!(@$v, $a + 21, 21, $c);
    };

    (@$v:ident, $a:expr, 43, $c:block) => {
        unroll!(@$v, $a, 42, $c);
        { const $v: usize = $a + 42; $c }
    };

    (@$v:ident, $a:expr, 44, $c:block) => {
        unroll!(@$v, $a, 22, $c);
        unroll!(@$v, $a + 22, 22, $c);
    };

    (@$v:ident, $a:expr, 45, $c:block) => {
        unroll!(@$v, $a, 44, $c);
        { const $v: usize = $a + 44; $c }
    };

    (@$v:ident, $a:expr, 46, $c:block) => {
        unroll!(@$v, $a, 23, $c);
        unroll!(@$v, $a + 23, 23, $c);
    };

    (@$v:ident, $a:expr, 47, $c:block) => {
        unroll!(@$v, $a, 46, $c);
        { const $v: usize = $a + 46; $c }
    };

    (@$v:ident, $a:expr, 48, $c:block) => {
        unroll!(@$v, $a, 24, $c);
        unroll!(@$v, $a + 24, 24, $c);
    };

    (@$v:ident, $a:expr, 49, $c:block) => {
        unroll!(@$v, $a, 48, $c);
        { const $v: usize = $a + 48; $c }
    };

    (@$v:ident, $a:expr, 50, $c:block) => {
        unroll!(@$v, $a, 25, $c);
        unroll!(@$v, $a + 25, 25, $c);
    };

    (@$v:ident, $a:expr, 51, $c:block) => {
        unroll!(@$v, $a, 50, $c);
        { const $v: usize = $a + 50; $c }
    };

    (@$v:ident, $a:expr, 52, $c:block) => {
        unroll!(@$v, $a, 26, $c);
        unroll!(@$v, $a + 26, 26, $c);
    };

    (@$v:ident, $a:expr, 53, $c:block) => {
        unroll!(@$v, $a, 52, $c);
        { const $v: usize = $a + 52; $c }
    };

    (@$v:ident, $a:expr, 54, $c:block) => {
        unroll!(@$v, $a, 27, $c);
        unroll!(@$v, $a + 27, 27, $c);
    };

    (@$v:ident, $a:expr, 55, $c:block) => {
        unroll!(@$v, $a, 54, $c);
        { const $v: usize = $a + 54; $c }
    };

    (@$v:ident, $a:expr, 56, $c:block) => {
        unroll!(@$v, $a, 28, $c);
        unroll!(@$v, $a + 28, 28, $c);
    };

    (@$v:ident, $a:expr, 57, $c:block) => {
        unroll!(@$v, $a, 56, $c);
        { const $v: usize = $a + 56; $c }
    };

    (@$v:ident, $a:expr, 58, $c:block) => {
        unroll!(@$v, $a, 29, $c);
        unroll!(@$v, $a + 29, 29, $c);
    };

    (@$v:ident, $a:expr, 59, $c:block) => {
        unroll!(@$v, $a, 58, $c);
        { const $v: usize = $a + 58; $c }
    };

    (@$v:ident, $a:expr, 60, $c:block) => {
        unroll!(@$v, $a, 30, $c);
        unroll!(@$v, $a + 30, 30, $c);
    };

    (@$v:ident, $a:expr, 61, $c:block) => {
        unroll!(@$v, $a, 60, $c);
        { const $v: usize = $a + 60; $c }
    };

    (@$v:ident, $a:expr, 62, $c:block) => {
        unroll!(@$v, $a, 31, $c);
        unroll!(@$v, $a + 31, 31, $c);
    };

    (@$v:ident, $a:expr, 63, $c:block) => {
        unroll!(@$v, $a, 62, $c);
        { const $v: usize = $a + 62; $c }
    };

    (@$v:ident, $a:expr, 64, $c:block) => {
        unroll!(@$v, $a, 32, $c);
        unroll!(@$v, $a + 32, 32, $c);
    };

    (@$v:ident, $a:expr, 65, $c:block) => {
        unroll!(@$v, $a, 64, $c);
        { const $v: usize = $a + 64; $c }
    };

    (@$v:ident, $a:expr, 66, $c:block) => {
        unroll!(@$v, $a, 33, $c);
        unroll!(@$v, $a + 33, 33, $c);
    };

    (@$v:ident, $a:expr, 67, $c:block) => {
        unroll!(@$v, $a, 66, $c);
        { const $v: usize = $a + 66; $c }
    };

    (@$v:ident, $a:expr, 68, $c:block) => {
        unroll!(@$v, $a, 34, $c);
        unroll!(@$v, $a + 34, 34, $c);
    };

    (@$v:ident, $a:expr, 69, $c:block) => {
        unroll!(@$v, $a, 68, $c);
        { const $v: usize = $a + 68; $c }
    };

    (@$v:ident, $a:expr, 70, $c:block) => {
        unroll!(@$v, $a, 35, $c);
        unroll!(@$v, $a + 35, 35, $c);
    };

    (@$v:ident, $a:expr, 71, $c:block) => {
        unroll!(@$v, $a, 70, $c);
        { const $v: usize = $a + 70; $c }
    };

    (@$v:ident, $a:expr, 72, $c:block) => {
        unroll!(@$v, $a, 36, $c);
        unroll!(@$v, $a + 36, 36, $c);
    };

    (@$v:ident, $a:expr, 73, $c:block) => {
        unroll!(@$v, $a, 72, $c);
        { const $v: usize = $a + 72; $c }
    };

    (@$v:ident, $a:expr, 74, $c:block) => {
        unroll!(@$v, $a, 37, $c);
        unroll!(@$v, $a + 37, 37, $c);
    };

    (@$v:ident, $a:expr, 75, $c:block) => {
        unroll!(@$v, $a, 74, $c);
        { const $v: usize = $a + 74; $c }
    };

    (@$v:ident, $a:expr, 76, $c:block) => {
        unroll!(@$v, $a, 38, $c);
        unroll!(@$v, $a + 38, 38, $c);
    };

    (@$v:ident, $a:expr, 77, $c:block) => {
        unroll!(@$v, $a, 76, $c);
        { const $v: usize = $a + 76; $c }
    };

    (@$v:ident, $a:expr, 78, $c:block) => {
        unroll!(@$v, $a, 39, $c);
        unroll!(@$v, $a + 39, 39, $c);
    };

    (@$v:ident, $a:expr, 79, $c:block) => {
        unroll!(@$v, $a, 78, $c);
        { const $v: usize = $a + 78; $c }
    };

    (@$v:ident, $a:expr, 80, $c:block) => {
        unroll!(@$v, $a, 40, $c);
        unroll!(@$v, $a + 40, 40, $c);
    };

    (@$v:ident, $a:expr, 81, $c:block) => {
        unroll!(@$v, $a, 80, $c);
        { const $v: usize = $a + 80; $c }
    };

    (@$v:ident, $a:expr, 82, $c:block) => {
        unroll!(@$v, $a, 41, $c);
        unroll!(@$v, $a + 41, 41, $c);
    };

    (@$v:ident, $a:expr, 83, $c:block) => {
        unroll!(@$v, $a, 82, $c);
        { const $v: usize = $a + 82; $c }
    };

    (@$v:ident, $a:expr, 84, $c:block) => {
        unroll!(@$v, $a, 42, $c);
        unroll!(@$v, $a + 42, 42, $c);
    };

    (@$v:ident, $a:expr, 85, $c:block) => {
        unroll!(@$v, $a, 84, $c);
        { const $v: usize = $a + 84; $c }
    };

    (@$v:ident, $a:expr, 86, $c:block) => {
        unroll!(@$v, $a, 43, $c);
        unroll!(@$v, $a + 43, 43, $c);
    };

    (@$v:ident, $a:expr, 87, $c:block) => {
        unroll!(@$v, $a, 86, $c);
        { const $v: usize = $a + 86; $c }
    };

    (@$v:ident, $a:expr, 88, $c:block) => {
        unroll!(@$v, $a, 44, $c);
        unroll!(@$v, $a + 44, 44, $c);
    };

    (@$v:ident, $a:expr, 89, $c:block) => {
        unroll!(@$v, $a, 88, $c);
        { const $v: usize = $a + 88; $c }
    };

    (@$v:ident, $a:expr, 90, $c:block) => {
        unroll!(@$v, $a, 45, $c);
        unroll!(@$v, $a + 45, 45, $c);
    };

    (@$v:ident, $a:expr, 91, $c:block) => {
        unroll!(@$v, $a, 90, $c);
        { const $v: usize = $a + 90; $c }
    };

    (@$v:ident, $a:expr, 92, $c:block) => {
        unroll!(@$v, $a, 46, $c);
        unroll!(@$v, $a + 46, 46, $c);
    };

    (@$v:ident, $a:expr, 93, $c:block) => {
        unroll!(@$v, $a, 92, $c);
        { const $v: usize = $a + 92; $c }
    };

    (@$v:ident, $a:expr, 94, $c:block) => {
        unroll!(@$v, $a, 47, $c);
        unroll!(@$v, $a + 47, 47, $c);
    };

    (@$v:ident, $a:expr, 95, $c:block) => {
        unroll!(@$v, $a, 94, $c);
        { const $v: usize = $a + 94; $c }
    };

    (@$v:ident, $a:expr, 96, $c:block) => {
        unroll!(@$v, $a, 48, $c);
        unroll!(@$v, $a + 48, 48, $c);
    };

    (@$v:ident, $a:expr, 97, $c:block) => {
        unroll!(@$v, $a, 96, $c);
        { const $v: usize = $a + 96; $c }
    };

    (@$v:ident, $a:expr, 98, $c:block) => {
        unroll!(@$v, $a, 49, $c);
        unroll!(@$v, $a + 49, 49, $c);
    };

    (@$v:ident, $a:expr, 99, $c:block) => {
        unroll!(@$v, $a, 98, $c);
        { const $v: usize = $a + 98; $c }
    };

    (@$v:ident, $a:expr, 100, $c:block) => {
        unroll!(@$v, $a, 50, $c);
        unroll!(@$v, $a + 50, 50, $c);
    };

    (@$v:ident, $a:expr, 101, $c:block) => {
        unroll!(@$v, $a, 100, $c);
        { const $v: usize = $a + 100; $c }
    };

    (@$v:ident, $a:expr, 102, $c:block) => {
        unroll!(@$v, $a, 51, $c);
        unroll!(@$v, $a + 51, 51, $c);
    };

    (@$v:ident, $a:expr, 103, $c:block) => {
        unroll!(@$v, $a, 102, $c);
        { const $v: usize = $a + 102; $c }
    };

    (@$v:ident, $a:expr, 104, $c:block) => {
        unroll!(@$v, $a, 52, $c);
        unroll!(@$v, $a + 52, 52, $c);
    };

    (@$v:ident, $a:expr, 105, $c:block) => {
        unroll!(@$v, $a, 104, $c);
        { const $v: usize = $a + 104; $c }
    };

    (@$v:ident, $a:expr, 106, $c:block) => {
        unroll!(@$v, $a, 53, $c);
        unroll!(@$v, $a + 53, 53, $c);
    };

    (@$v:ident, $a:expr, 107, $c:block) => {
        unroll!(@$v, $a, 106, $c);
        { const $v: usize = $a + 106; $c }
    };

    (@$v:ident, $a:expr, 108, $c:block) => {
        unroll!(@$v, $a, 54, $c);
        unroll!(@$v, $a + 54, 54, $c);
    };

    (@$v:ident, $a:expr, 109, $c:block) => {
        unroll!(@$v, $a, 108, $c);
        { const $v: usize = $a + 108; $c }
    };

    (@$v:ident, $a:expr, 110, $c:block) => {
        unroll!(@$v, $a, 55, $c);
        unroll!(@$v, $a + 55, 55, $c);
    };

    (@$v:ident, $a:expr, 111, $c:block) => {
        unroll!(@$v, $a, 110, $c);
        { const $v: usize = $a + 110; $c }
    };

    (@$v:ident, $a:expr, 112, $c:block) => {
        unroll!(@$v, $a, 56, $c);
        unroll!(@$v, $a + 56, 56, $c);
    };

    (@$v:ident, $a:expr, 113, $c:block) => {
        unroll!(@$v, $a, 112, $c);
        { const $v: usize = $a + 112; $c }
    };

    (@$v:ident, $a:expr, 114, $c:block) => {
        unroll!(@$v, $a, 57, $c);
        unroll!(@$v, $a + 57, 57, $c);
    };

    (@$v:ident, $a:expr, 115, $c:block) => {
        unroll!(@$v, $a, 114, $c);
        { const $v: usize = $a + 114; $c }
    };

    (@$v:ident, $a:expr, 116, $c:block) => {
        unroll!(@$v, $a, 58, $c);
        unroll!(@$v, $a + 58, 58, $c);
    };

    (@$v:ident, $a:expr, 117, $c:block) => {
        unroll!(@$v, $a, 116, $c);
        { const $v: usize = $a + 116; $c }
    };

    (@$v:ident, $a:expr, 118, $c:block) => {
        unroll!(@$v, $a, 59, $c);
        unroll!(@$v, $a + 59, 59, $c);
    };

    (@$v:ident, $a:expr, 119, $c:block) => {
        unroll!(@$v, $a, 118, $c);
        { const $v: usize = $a + 118; $c }
    };

    (@$v:ident, $a:expr, 120, $c:block) => {
        unroll!(@$v, $a, 60, $c);
        unroll!(@$v, $a + 60, 60, $c);
    };

    (@$v:ident, $a:expr, 121, $c:block) => {
        unroll!(@$v, $a, 120, $c);
        { const $v: usize = $a + 120; $c }
    };

    (@$v:ident, $a:expr, 122, $c:block) => {
        unroll!(@$v, $a, 61, $c);
        unroll!(@$v, $a + 61, 61, $c);
    };

    (@$v:ident, $a:expr, 123, $c:block) => {
        unroll!(@$v, $a, 122, $c);
        { const $v: usize = $a + 122; $c }
    };

    (@$v:ident, $a:expr, 124, $c:block) => {
        unroll!(@$v, $a, 62, $c);
        unroll!(@$v, $a + 62, 62, $c);
    };

    (@$v:ident, $a:expr, 125, $c:block) => {
        unroll!(@$v, $a, 124, $c);
        { const $v: usize = $a + 124; $c }
    };

    (@$v:ident, $a:expr, 126, $c:block) => {
        unroll!(@$v, $a, 63, $c);
        unroll!(@$v, $a + 63, 63, $c);
    };

    (@$v:ident, $a:expr, 127, $c:block) => {
        unroll!(@$v, $a, 126, $c);
        { const $v: usize = $a + 126; $c }
    };

    (@$v:ident, $a:expr, 128, $c:block) => {
        unroll!(@$v, $a, 64, $c);
        unroll!(@$v, $a + 64, 64, $c);
    };

}


#[cfg(all(test, feature = "std"))]
mod tests {
    #[test]
    fn invalid_range() {
        let mut a: Vec<usize> = vec![];
        unroll! {
                for i in (5..4) {
                    a.push(i);
                }
            }
        assert_eq!(a, vec![]);
    }

    #[test]
    fn start_at_one_with_step() {
        let mut a: Vec<usize> = vec![];
        unroll! {
                for i in (2..4).step_by(1) {
                    a.push(i);
                }
            }
        assert_eq!(a, vec![2, 3]);
    }

    #[test]
    fn start_at_one() {
        let mut a: Vec<usize> = vec![];
        unroll! {
                for i in 1..4 {
                    a.push(i);
                }
            }
        assert_eq!(a, vec![1, 2, 3]);
    }

    #[test]
    fn test_all() {
        {
            let a: Vec<usize> = vec![];
            unroll! {
                for i in 0..0 {
                    a.push(i);
                }
            }
            assert_eq!(a, (0..0).collect::<Vec<usize>>());
        }
        {
            let mut a: Vec<usize> = vec![];
            unroll! {
                for i in 0..1 {
                    a.push(i);
                }
            }
            assert_eq!(a, (0..1).collect::<Vec<usize>>());
        }
        {
            let mut a: Vec<usize> = vec![];
            unroll! {
                for i in 0..128 {
                    a.push(i);
                }
            }
            assert_eq!(a, (0..128).collect::<Vec<usize>>());
        }
        {
            let mut a: Vec<usize> = vec![];
            let start = 128 / 4;
            let end = start * 3;
            unroll! {
                for i < 128 in start..end {
                    a.push(i);
                }
            }
            assert_eq!(a, (start..end).collect::<Vec<usize>>());
        }
        {
            let mut a: Vec<usize> = vec![];
            unroll! {
                for i in (0..128).step_by(2) {
                    a.push(i);
                }
            }
            assert_eq!(a, (0..128 / 2).map(|x| x * 2).collect::<Vec<usize>>());
        }
        {
            let mut a: Vec<usize> = vec![];
            let start = 128 / 4;
            let end = start * 3;
            unroll! {
                for i < 128 in (start..end).step_by(2) {
                    a.push(i);
                }
            }
            assert_eq!(a, (start..end).filter(|x| x % 2 == 0).collect::<Vec<usize>>());
        }
    }
}
