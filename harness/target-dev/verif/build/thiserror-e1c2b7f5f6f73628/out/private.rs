#[doc(hidden)]
pub mod __private20 {
    #[doc(hidden)]
    pub use crate::private::*;
}
