#[doc(hidden)]
pub mod __private229 {
    #[doc(hidden)]
    pub use crate::private::*;
}
use serde_core::__private229 as serde_core_private;
