#[doc(hidden)]
pub mod __private23 {
    #[doc(hidden)]
    pub use crate::private::*;
}
