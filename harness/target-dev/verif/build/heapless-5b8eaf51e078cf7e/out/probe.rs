
#![no_std]

// `no_mangle` forces codegen, which makes llvm check the contents of the `asm!` macro
#[no_mangle]
unsafe fn asm() {
    core::arch::asm!("clrex");
}
