------------------------------ MODULE Trace_Scc ------------------------------
(* Public calls on the real code, accepted by their contract: a top-level      *)
(* (reverse_)depth_first_search call must add exactly the vertices reachable   *)
(* through unvisited vertices, each once, the root last; the component list    *)
(* must be the mutual-reachability partition; the largest must be maximal.     *)
(* Orders inside components and among them are free (any correct algorithm).   *)
EXTENDS Scc, TraceLib
VARIABLE l
tvars == <<nv, E, visited, stack, comps, phase, root, l>>
Ev == Rec[l]

T_Graph == /\ Ev.ev = "Graph" /\ nv' = Ev.nv /\ E' = Ev.E
           /\ UNCHANGED <<visited, stack, comps, phase, root>>
T_Dfs == /\ Ev.ev = "Dfs"
         /\ LET before == SetOf(Ev.visited)
                want == Reach(Ev.root, before, Ev.rev)
            IN /\ SetOf(Ev.pushed) = want
               /\ Len(Ev.pushed) = Cardinality(want)
               /\ Ev.pushed # <<>> => Ev.pushed[Len(Ev.pushed)] = Ev.root
               /\ SetOf(Ev.visited_after) = before \cup want
         /\ UNCHANGED <<nv, E, visited, stack, comps, phase, root>>
T_Result == /\ Ev.ev = "Result"
            /\ IsPartitionResult(Ev.comps)
            /\ IsLargest(Ev.largest, Ev.comps)
            /\ UNCHANGED <<nv, E, visited, stack, comps, phase, root>>
TInit == l = 1 /\ nv = 0 /\ E = <<>> /\ visited = {} /\ stack = <<>> /\ comps = <<>> /\ phase = "idle" /\ root = 1
TNext == l <= Len(Rec) /\ l' = l + 1 /\ (T_Graph \/ T_Dfs \/ T_Result)
TSpec == TInit /\ [][TNext]_tvars
Track == TrackPos(l)
NotStop == NotStopped(l)
TraceAccepted == Accepted
=============================================================================
