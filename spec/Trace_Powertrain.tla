--------------------------- MODULE Trace_Powertrain ---------------------------
(* One PEdge event per real EnergyTraversalModel::traverse_edge call (real ICE / BEV /   *)
(* PHEV over a real speed-table time model, the prediction model a harness table that     *)
(* logs the speed and grade it is asked for), one PEst per estimate_traversal call.       *)
EXTENDS Powertrain, TraceLib
VARIABLE l
tvars == <<veh, pst, pok, l>>
Ev == Rec[l]
Chk(name, cond) == IF cond THEN TRUE ELSE PrintT(<<"FAILED", name, l>>) /\ FALSE
(* the change over one step must be the specified change within 0.3 % (two unit conversions compose);  *)
(* a clamped charge must be exactly 0 or 100                                                           *)
StepClose(after, delta, ch, gross) ==
   /\ SCloseTo(delta.ee, ch.dee, gross, 3000) /\ SCloseTo(delta.el, ch.del, gross, 3000)
   /\ (ch.dee = SZero => delta.ee = SZero) /\ (ch.del = SZero => delta.el = SZero)       \* exclusivity, exactly
   /\ IF ch.soc = SZero \/ ch.soc = S100 THEN (after.soc = ch.soc \/ SCloseTo(after.soc, ch.soc, S100, 10))      \* clamped
                                            ELSE SCloseTo(delta.soc, ch.dsoc, SDiv(SMul(S100, gross), veh.cap), 3000)
Gross(ev) == IF veh.type = "phev" /\ ev.before.soc.s <= 0
             THEN GrossEnergy(veh.a2, veh.b2, veh.c2, veh.rateDU2, ev.speed, ev.su, ev.grade, ev.gu, ev.len, "meters")
             ELSE GrossEnergy(veh.a, veh.b, veh.c, veh.rateDU, ev.speed, ev.su, ev.grade, ev.gu, ev.len, "meters")
StateClose(got, want) == /\ SCloseTo(got.soc, want.soc, S100, 50)
                         /\ SCloseTo(got.ee, want.ee, SAdd(SAbs(want.ee), SInt(1)), 50) /\ SCloseTo(got.el, want.el, SAdd(SAbs(want.el), SInt(1)), 50)

T_PStart == /\ Ev.ev = "PStart" /\ StartQuery(Ev.veh, Ev.soc0)
            /\ Chk("C08 starting charge outside 0-100 rejected, inside accepted", Ev.ok = pok')
            /\ Ev.ok => Chk("C08 initial state", StateClose(Ev.init, pst'))
(* the observed state is adopted after each step (pst' = Ev.after) so that rounding does not accumulate;   *)
(* additivity is checked exactly: the state before an edge IS the state after the previous one             *)
T_PEdge == /\ Ev.ev = "PEdge" /\ pok /\ Ev.ok
           /\ Chk("C08 accumulates additively (state before = state after the previous edge)", StateClose(Ev.before, pst))
           /\ Chk("C08 energy / charge after the edge", StepClose(Ev.after, Ev.delta, StepChange(Ev.before, Ev.speed, Ev.su, Ev.grade, Ev.gu, Ev.len, "meters"), Gross(Ev)))
           /\ Chk("C08 charge within 0-100", Ev.after.soc.s >= 0 /\ SLeq(Ev.after.soc, S100))
           /\ Chk("C08 speed and grade handed to the prediction model",
                  \A i \in DOMAIN Ev.seen :
                     /\ SClose(Ev.seen[i].speed, Convert("speed", Ev.su, Ev.seen[i].su, Ev.speed), 3000)
                     /\ SCloseTo(Ev.seen[i].grade, Convert("grade", Ev.gu, Ev.seen[i].gu, Ev.grade), SInt(1), 50))
           /\ Chk("C08 one model consulted per edge (electric or liquid, not both)", Len(Ev.seen) <= 1)
           /\ (veh.type = "phev" /\ Len(Ev.seen) = 1) =>
                   Chk("C08 electric only with charge remaining, liquid only when empty",
                       Ev.seen[1].which = (IF Ev.before.soc.s > 0 THEN "dep" ELSE "sus"))
           /\ pst' = Ev.after /\ UNCHANGED <<veh, pok>>
T_PEst == /\ Ev.ev = "PEst" /\ pok
          /\ Chk("C08 best case = ideal rate x distance", StepClose(Ev.after, Ev.delta, BestCaseChange(Ev.before, Ev.dist, Ev.du), SMul(veh.ideal, Convert("distance", Ev.du, veh.rateDU, Ev.dist))))
          /\ UNCHANGED <<veh, pst, pok>>
TInit == l = 1 /\ veh = [type |-> "ice"] /\ pst = [soc |-> SZero, ee |-> SZero, el |-> SZero] /\ pok = FALSE
TNext == l <= Len(Rec) /\ l' = l + 1 /\ (T_PStart \/ T_PEdge \/ T_PEst)
TSpec == TInit /\ [][TNext]_tvars
Track == TrackPos(l)
NotStop == NotStopped(l)
TraceAccepted == Accepted
=============================================================================
