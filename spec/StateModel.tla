------------------------------ MODULE StateModel ------------------------------
(***************************************************************************)
(* The state model (model/state/state_model.rs, state_feature.rs): an      *)
(* insertion-ordered map feature name -> feature; the slot of a feature is *)
(* its position.                                                           *)
(*   feature  [name, kind ("distance" | "time" | "energy" | "custom"),     *)
(*             unit, ctype (custom type + unit text, "" otherwise),        *)
(*             init (Sci)]                                                 *)
(*   sm       sequence of features (slot i = position i, 0-based outside)  *)
(*   vec      the state vector under test: sequence of Sci values, each in *)
(*            its feature's own unit                                       *)
(***************************************************************************)
EXTENDS Units, Sequences, FiniteSets

VARIABLES sm, vec
smvars == <<sm, vec>>

HasF(s, n) == \E i \in DOMAIN s : s[i].name = n
IdxF(s, n) == CHOOSE i \in DOMAIN s : s[i].name = n
SameType(a, b) == a.kind = b.kind /\ (a.kind = "custom" => a.ctype = b.ctype)
DistinctNames(fs) == \A i, j \in DOMAIN fs : i # j => fs[i].name # fs[j].name

(* StateModel::new *)
New(fs) == DistinctNames(fs) /\ sm' = fs /\ vec' = <<>>
(* StateModel::extend: in order, a new name is appended, an existing name is overwritten in place when the
   feature has the same type (unit and initial value may change), and the whole call fails otherwise *)
RECURSIVE ExtendAll(_, _)
ExtendAll(s, es) == IF es = <<>> THEN s
                    ELSE LET e == Head(es)
                         IN ExtendAll(IF HasF(s, e.name) THEN [s EXCEPT ![IdxF(s, e.name)] = e] ELSE Append(s, e), Tail(es))
RECURSIVE Conflict(_, _)
Conflict(s, es) == IF es = <<>> THEN FALSE
                   ELSE LET e == Head(es)
                        IN (HasF(s, e.name) /\ ~SameType(s[IdxF(s, e.name)], e))
                           \/ Conflict(IF HasF(s, e.name) THEN [s EXCEPT ![IdxF(s, e.name)] = e] ELSE Append(s, e), Tail(es))
Extend(es) == IF Conflict(sm, es) THEN UNCHANGED <<sm, vec>> ELSE sm' = ExtendAll(sm, es) /\ vec' = <<>>
(* StateModel::initial_state: exactly n entries holding the declared initial values *)
Initial(s) == [i \in DOMAIN s |-> s[i].init]
InitialState == vec' = Initial(sm) /\ UNCHANGED sm

(* custom features have no unit; energy is read and written in the feature's own unit here (no physical table) *)
NoConv(f) == f.kind \in {"custom", "energy"}
Fam(k) == k          \* feature kind = unit family ("custom" has no units)
(* get / set / add by name touch only the feature's own slot and round-trip through unit conversion *)
GetOf(s, v, name, unit) == LET f == s[IdxF(s, name)] IN IF NoConv(f) THEN v[IdxF(s, name)] ELSE Convert(Fam(f.kind), f.unit, unit, v[IdxF(s, name)])
GetIn(name, unit) == GetOf(sm, vec, name, unit)
SetVal(name, unit, v) == LET i == IdxF(sm, name)  f == sm[i] IN [vec EXCEPT ![i] = IF NoConv(f) THEN v ELSE Convert(Fam(f.kind), unit, f.unit, v)]
AddVal(name, unit, v) == LET i == IdxF(sm, name)  f == sm[i] IN [vec EXCEPT ![i] = SAdd(@, IF NoConv(f) THEN v ELSE Convert(Fam(f.kind), unit, f.unit, v))]
SetTo(name, unit, v) == LET i == IdxF(sm, name)  f == sm[i]
                        IN vec' = [vec EXCEPT ![i] = IF NoConv(f) THEN v ELSE Convert(Fam(f.kind), unit, f.unit, v)] /\ UNCHANGED sm
AddTo(name, unit, v) == LET i == IdxF(sm, name)  f == sm[i]
                        IN vec' = [vec EXCEPT ![i] = SAdd(@, IF NoConv(f) THEN v ELSE Convert(Fam(f.kind), unit, f.unit, v))] /\ UNCHANGED sm

(* C11 *)
SlotsDense == \A n \in {sm[i].name : i \in DOMAIN sm} : IdxF(sm, n) \in 1..Len(sm) /\ Cardinality({sm[i].name : i \in DOMAIN sm}) = Len(sm)
VecFits == vec = <<>> \/ Len(vec) = Len(sm)
=============================================================================
