CONSTANTS
  MaxLines = 4
  MaxChunk = 4
INIT Init
NEXT Next
INVARIANTS AppendOnly HeaderOnce NoDuplicates ChunkOrder Complete RefusedUntouched OneRunAtATime
PROPERTY Progress
CHECK_DEADLOCK FALSE
