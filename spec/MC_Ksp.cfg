CONSTANTS
  NV = 3
  MaxE = 4
  Lens = {1, 2}
INIT Init
NEXT Next
INVARIANTS ContractHolds AtEnd
PROPERTIES Terminates
CHECK_DEADLOCK FALSE
