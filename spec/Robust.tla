-------------------------------- MODULE Robust --------------------------------
(***************************************************************************)
(* The contract "errors due to the user are propagated into the output     *)
(* JSON" (C12).  A batch is a sequence of abstract query classes:          *)
(*   "valid"    a well-formed, answerable or unanswerable query            *)
(*   "hostile"  malformed in a way the application must reject: wrong JSON *)
(*              type, missing / ill-typed field, out-of-range id or        *)
(*              coordinate, degenerate grid section, unknown names, zero   *)
(*              weights, ...                                               *)
(*   "any"      well-formed but unusual (e.g. identical origin and         *)
(*              destination): answered one way or the other                *)
(* each with the number n of queries it expands to (grid search).          *)
(* The ONLY way a submitted batch ends is Returned: the call comes back    *)
(* with one response per expanded query, every response echoes its request,*)
(* hostile ones carry an error, valid ones are not disturbed.  There is no *)
(* action for a panic, an abort, a time-out or an error for the whole      *)
(* batch: a recorded outcome of that kind is not a behaviour.              *)
(***************************************************************************)
EXTENDS Naturals, Sequences, FiniteSets, TLC

VARIABLES rbatch, rphase, served
rvars == <<rbatch, rphase, served>>

RECURSIVE Total(_, _)
Total(b, i) == IF i > Len(b) THEN 0 ELSE b[i].n + Total(b, i + 1)

RSubmit(b) == /\ rphase = "idle" /\ rbatch' = b /\ rphase' = "submitted" /\ served' = <<>>
(* resp: sequence of [q (index into the batch), echo, err] *)
ShapeOK(b, resp) ==
   /\ Len(resp) = Total(b, 1)                                        \* one response per expanded query
   /\ \A i \in DOMAIN resp : resp[i].q \in DOMAIN b /\ resp[i].echo   \* each carries the request it answers
   /\ \A q \in DOMAIN b : Cardinality({i \in DOMAIN resp : resp[i].q = q}) = b[q].n
   /\ \A i \in DOMAIN resp : b[resp[i].q].cls = "hostile" => resp[i].err
   /\ \A i \in DOMAIN resp : (b[resp[i].q].cls = "valid" /\ b[resp[i].q].answerable) => ~resp[i].err
RReturned(resp) == /\ rphase = "submitted" /\ ShapeOK(rbatch, resp)
                   /\ served' = resp /\ rphase' = "idle" /\ UNCHANGED rbatch
Served == rphase = "idle" => (served = <<>> \/ ShapeOK(rbatch, served))
=============================================================================
