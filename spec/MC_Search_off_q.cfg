CONSTANTS
  NV = 3
  MaxE = 2
  Lens = {2, 4}
  Spds = {1, 2}
  Heads = {0}
  HVals = {0, 2000}
  Dirs = {"fwd", "rev"}
  TieVals = {FALSE}
  MaxBad = 0
  Limits <- NoLimits
  Delays <- NoDelay
  Weights <- BlendOff
  Surs = {0, 1}
  CUs <- BaseCU
  Rts <- NoRt
  NoDst = FALSE
  OkSubsets = FALSE
  NeedConsistent = FALSE
INIT Init
NEXT Next
INVARIANTS TreeEdgeOK TreeRooted TreeMono TreeAllowed AtDone IterBound SizeBound RtBound
CHECK_DEADLOCK FALSE
