---- MODULE MC_OrderedMap ----
EXTENDS OrderedMap, Json
ViewNoHist == <<m, rep, nops>>
(* scenario export: one line per complete history (first element <<0, n>>: built by new(Prefix(n))) *)
Emit == nops = MaxOps => PrintT(<<"SCN", ToJson(hist)>>)
====
