CONSTANTS
  MaxF = 3
  Small = TRUE
INIT Init
NEXT Next
INVARIANTS Positive EstNonNeg SumExact ZeroWeightIgnored LinearInWeights
CHECK_DEADLOCK FALSE
