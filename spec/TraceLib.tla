------------------------------ MODULE TraceLib ------------------------------
(* Plumbing shared by all Trace_* modules: the recorded events, the set of   *)
(* enabled deviations, the acceptance register and the stop-at debugging aid *)
EXTENDS Naturals, Sequences, TLC, Json, IOUtils

Rec == ndJsonDeserialize(IOEnv.TRACE)              \* one record per recorded event
RunCfg == JsonDeserialize(IOEnv.DEVS)              \* {"devs": [open finding names], "props": [property ids to enforce]}
TraceDevs == {RunCfg.devs[i] : i \in DOMAIN RunCfg.devs}
TraceProps == {RunCfg.props[i] : i \in DOMAIN RunCfg.props}
Enforce(p) == p \in TraceProps
StopAt == atoi(IOEnv.STOPAT)                       \* 0 = off

ASSUME TLCSet(1, 0)
(* evaluated as a CONSTRAINT, i.e. on reached states only: highest consumed position *)
TrackPos(pos) == TLCSet(1, IF pos > TLCGet(1) THEN pos ELSE TLCGet(1))
Accepted == IF TLCGet(1) = Len(Rec) + 1
            THEN PrintT("TRACE-ACCEPTED")
            ELSE PrintT(<<"REJECT", TLCGet(1)>>) /\ FALSE
NotStopped(pos) == StopAt = 0 \/ pos < StopAt
Known(pid, name) == PrintT(<<"KNOWN", pid, name>>)
=============================================================================
