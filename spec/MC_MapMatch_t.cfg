CONSTANTS
  N = 4
  MaxC = 4
INIT Init
NEXT Next
INVARIANTS MatchOK ErrorOK
CHECK_DEADLOCK FALSE
