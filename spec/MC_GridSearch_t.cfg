CONSTANTS
  MaxAxes = 5
  MaxLen = 3
INIT Init
NEXT Next
INVARIANTS PrefixOfProduct NoDup CompleteAtEnd Bounded FieldsOK
CHECK_DEADLOCK FALSE
