--------------------------------- MODULE Sci ---------------------------------
(***************************************************************************)
(* Decimal floating point with a six-digit mantissa inside TLC's 32-bit    *)
(* integers: a number is [s, m, e] = s * m * 10^e with s in {-1, 0, 1} and *)
(* 100000 <= m <= 999999 (m = 0 iff s = 0).  Enough precision (1e-5) to    *)
(* decide the 0.1 % statements of the unit and powertrain properties.      *)
(***************************************************************************)
EXTENDS Naturals, Integers, TLC

SZero == [s |-> 0, m |-> 0, e |-> 0]
RECURSIVE NormUp(_, _), NormDown(_, _)
NormDown(m, e) == IF m >= 1000000 THEN NormDown(m \div 10, e + 1) ELSE <<m, e>>
NormUp(m, e) == IF m < 100000 THEN NormUp(m * 10, e - 1) ELSE <<m, e>>
Norm(s, m, e) == IF m = 0 \/ s = 0 THEN SZero
                 ELSE LET d == NormDown(m, e) u == NormUp(d[1], d[2]) IN [s |-> s, m |-> u[1], e |-> u[2]]
SInt(n) == IF n = 0 THEN SZero ELSE Norm(IF n < 0 THEN -1 ELSE 1, IF n < 0 THEN -n ELSE n, 0)
SNeg(a) == [a EXCEPT !.s = -a.s]
(* product: the mantissa product is formed in two halves so that nothing exceeds 2^31 *)
SMul(a, b) == IF a.s = 0 \/ b.s = 0 THEN SZero
              ELSE LET bh == b.m \div 1000  bl == b.m % 1000
                   IN Norm(a.s * b.s, a.m * bh + (a.m * bl) \div 1000, a.e + b.e + 3)
(* quotient by long division: seven further digits *)
RECURSIVE DivDigits(_, _, _, _)
DivDigits(q, r, d, k) == IF k = 0 THEN q ELSE DivDigits(q * 10 + (r * 10) \div d, (r * 10) % d, d, k - 1)
SDiv(a, b) == IF a.s = 0 THEN SZero
              ELSE Norm(a.s * b.s, DivDigits(a.m \div b.m, a.m % b.m, b.m, 6), a.e - b.e - 6)
(* sum of two numbers: align to the larger exponent (digits beyond six are dropped) *)
RECURSIVE Shift(_, _)
Shift(m, k) == IF k <= 0 \/ m = 0 THEN m ELSE Shift(m \div 10, k - 1)
SAdd(a, b) == IF a.s = 0 THEN b ELSE IF b.s = 0 THEN a
              ELSE LET e == IF a.e > b.e THEN a.e ELSE b.e
                       x == a.s * Shift(a.m, e - a.e) + b.s * Shift(b.m, e - b.e)
                   IN IF x = 0 THEN SZero ELSE Norm(IF x < 0 THEN -1 ELSE 1, IF x < 0 THEN -x ELSE x, e)
SSub(a, b) == SAdd(a, SNeg(b))
SAbs(a) == [a EXCEPT !.s = IF a.s = 0 THEN 0 ELSE 1]
(* a <= b *)
SLeq(a, b) == LET d == SSub(b, a) IN d.s >= 0
SLt(a, b) == LET d == SSub(b, a) IN d.s > 0
(* |a - b| <= max(|a|,|b|) * ppm / 10^6  (+ an absolute slack of 10^floorExp for values near zero) *)
SClose(a, b, ppm) ==
   \/ a = b
   \/ LET d == SAbs(SSub(a, b))
          big == IF SLeq(SAbs(a), SAbs(b)) THEN SAbs(b) ELSE SAbs(a)
          tol == SMul(big, Norm(1, ppm, -6))
      IN SLeq(d, tol)
SIsZero(a) == a.s = 0
(* |a - b| <= scale * ppm / 10^6: closeness relative to a given magnitude (results that cancel to zero) *)
SCloseTo(a, b, scale, ppm) == a = b \/ SLeq(SAbs(SSub(a, b)), SAdd(SMul(SAbs(scale), Norm(1, ppm, -6)), Norm(1, 1, -12)))
=============================================================================
