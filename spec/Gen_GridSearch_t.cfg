CONSTANTS
  MaxAxes = 4
  MaxLen = 3
INIT Init
NEXT Next
INVARIANTS EmitScn
CHECK_DEADLOCK FALSE
