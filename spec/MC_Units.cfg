INIT UInit
NEXT UNext
INVARIANTS IdentityLaw RoundTripLaw TransitiveLaw
CHECK_DEADLOCK FALSE
