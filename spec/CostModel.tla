------------------------------ MODULE CostModel ------------------------------
(***************************************************************************)
(* The cost model (model/cost/*.rs) and the access/traversal split of      *)
(* EdgeTraversal as operators over integers, and the charge of one edge as *)
(* a single action.                                                        *)
(*  feature  [w, rate, net, da, dt]: weight, vehicle rate, network rate,   *)
(*           change of the feature caused by the access model, by the      *)
(*           traversal model                                               *)
(*  rates    <<"zero">> | <<"raw">> | <<"factor", k>> | <<"offset", o>> |  *)
(*           <<"combined", <<r1, ..>>>>   (applied left to right)          *)
(*  network  <<"zero">> | <<"edge", c>> (surcharge of the traversed edge)  *)
(*           | <<"turn", c>> (surcharge of the pair (previous, this))      *)
(*           | <<"edge_other", c>> | <<"turn_other", c>> (tables that do   *)
(*           not list this edge / pair) | <<"combined", <<n1, ..>>>>       *)
(* Floor: MIN_COST (1e-10) is written Floor and is strictly positive.      *)
(***************************************************************************)
EXTENDS Naturals, Integers, Sequences, FiniteSets, TLC

RECURSIVE Rate(_, _), RateAll(_, _, _)
Rate(r, x) == CASE r[1] = "zero" -> 0
                [] r[1] = "raw" -> x
                [] r[1] = "factor" -> x * r[2]
                [] r[1] = "offset" -> x + r[2]
                [] r[1] = "combined" -> RateAll(r[2], x, 1)
RateAll(rs, x, i) == IF i > Len(rs) THEN x ELSE RateAll(rs, Rate(rs[i], x), i + 1)

RECURSIVE NetTrav(_), NetAcc(_)
NetTrav(n) == CASE n[1] = "edge" -> n[2]
                [] n[1] = "combined" -> LET RECURSIVE S(_) S(i) == IF i > Len(n[2]) THEN 0 ELSE NetTrav(n[2][i]) + S(i + 1) IN S(1)
                [] OTHER -> 0
NetAcc(n) == CASE n[1] = "turn" -> n[2]
               [] n[1] = "combined" -> LET RECURSIVE S(_) S(i) == IF i > Len(n[2]) THEN 0 ELSE NetAcc(n[2][i]) + S(i + 1) IN S(1)
               [] OTHER -> 0

(* CostAggregation over the per-feature terms t[1..n] *)
RECURSIVE SumOf(_, _), MulOf(_, _)
SumOf(t, i) == IF i > Len(t) THEN 0 ELSE t[i] + SumOf(t, i + 1)
MulOf(t, i) == IF i > Len(t) THEN 1 ELSE t[i] * MulOf(t, i + 1)
Agg(agg, t) == IF agg = "sum" THEN SumOf(t, 1) ELSE IF Len(t) = 0 THEN 0 ELSE MulOf(t, 1)

(* the three aggregates of cost_ops, for a state change d[i] per feature *)
Veh(agg, F, d)  == Agg(agg, [i \in DOMAIN F |-> Rate(F[i].rate, d[i]) * F[i].w])
NTrav(agg, F)   == Agg(agg, [i \in DOMAIN F |-> NetTrav(F[i].net) * F[i].w])
NAcc(agg, F)    == Agg(agg, [i \in DOMAIN F |-> NetAcc(F[i].net) * F[i].w])

Floor == -1                                        \* stands for Cost::MIN_COST (1e-10), strictly positive
Pos(x) == IF x <= 0 THEN Floor ELSE x               \* Cost::enforce_strictly_positive
Clip(x) == IF x < 0 THEN 0 ELSE x                   \* Cost::enforce_non_negative

(* the access model runs only when there is a previous edge; the total change is access first, then traversal *)
DA(F, hasPrev) == [i \in DOMAIN F |-> IF hasPrev THEN F[i].da ELSE 0]
DT(F, hasPrev) == [i \in DOMAIN F |-> (IF hasPrev THEN F[i].da ELSE 0) + F[i].dt]

(* CostModel API *)
TraversalCost(agg, F, hasPrev) == Pos(Veh(agg, F, DT(F, hasPrev)) + NTrav(agg, F))
AccessCost(agg, F)    == Pos(Veh(agg, F, DA(F, TRUE)) + NAcc(agg, F))
Estimate(agg, F, d)   == Clip(Veh(agg, F, d))

(* what the property asks to be charged for the edge (sum aggregation): *)
Intended(F, hasPrev) == Pos(Veh("sum", F, DT(F, hasPrev)) + NTrav("sum", F) + (IF hasPrev THEN NAcc("sum", F) ELSE 0))
(* what EdgeTraversal charges: access + (total - access) = total, which never contains the turn surcharge (F-C07-a) *)
AsCoded(agg, F, hasPrev) == TraversalCost(agg, F, hasPrev)

VARIABLES case, res
cmvars == <<case, res>>
Charge(c) == /\ case' = c
             /\ res' = [charged |-> IF c.agg = "sum" THEN Intended(c.F, c.prev) ELSE AsCoded(c.agg, c.F, c.prev),
                        est |-> Estimate(c.agg, c.F, DT(c.F, c.prev))]

(* C07 on the result *)
Positive == res.charged = Floor \/ res.charged > 0
EstNonNeg == res.est >= 0
SumExact == (case.agg = "sum" /\ res.charged # Floor) =>
               res.charged = SumOf([i \in DOMAIN case.F |->
                                      case.F[i].w * (Rate(case.F[i].rate, DT(case.F, case.prev)[i])
                                                     + NetTrav(case.F[i].net)
                                                     + (IF case.prev THEN NetAcc(case.F[i].net) ELSE 0))], 1)
ZeroWeightIgnored ==   \* changing anything about a zero-weight feature does not change the charge (sum)
   case.agg = "sum" =>
      \A i \in DOMAIN case.F : case.F[i].w = 0 =>
         Intended([case.F EXCEPT ![i] = [@ EXCEPT !.dt = @ + 7, !.da = @ + 1, !.rate = <<"factor", 3>>]], case.prev) = res.charged
LinearInWeights ==     \* doubling every weight doubles a positive charge (sum)
   (case.agg = "sum" /\ res.charged # Floor) =>
      Intended([i \in DOMAIN case.F |-> [case.F[i] EXCEPT !.w = 2 * @]], case.prev) = 2 * res.charged
=============================================================================
