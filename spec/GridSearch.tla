----------------------------- MODULE GridSearch -----------------------------
(***************************************************************************)
(* Grid-search expansion: MultiSet::{from,next} (mixed-radix counter with  *)
(* the carry loop as coded) and GridSearchPlugin::process (overlay of one  *)
(* combination on the query without its grid section).                     *)
(*   axes  sequence of [key, ch] - ch a non-empty sequence of choices      *)
(*         [t |-> "s", v |-> scalar] or [t |-> "o", v |-> record]          *)
(*   base  the query without the grid section (a record / function)        *)
(*   pos   the counter (0-based digits), or None when exhausted            *)
(*   out   what has been emitted so far (positions and queries)            *)
(***************************************************************************)
EXTENDS Naturals, Integers, Sequences, FiniteSets, TLC

VARIABLES axes, base, pos, outPos, outQ, phase
gvars == <<axes, base, pos, outPos, outQ, phase>>

None == <<-1>>
M == Len(axes)
Final == [i \in 1..M |-> Len(axes[i].ch) - 1]

Apply(q, key, c) == IF c.t = "s" THEN (key :> c.v) @@ q     \* scalar: stored under the axis name
                    ELSE c.v @@ q                            \* object: merged into the top level
RECURSIVE OverlayFrom(_, _, _)
OverlayFrom(q, p, i) == IF i > M THEN q
                        ELSE OverlayFrom(Apply(q, axes[i].key, axes[i].ch[p[i] + 1]), p, i + 1)
Overlay(p) == OverlayFrom(base, p, 1)

(* the carry loop of MultiSet::next, index by index *)
RECURSIVE Tick(_, _)
Tick(p, idx) == IF idx > M THEN None                 \* no axes: a single (empty) combination
                ELSE IF p[idx] < Final[idx] THEN [p EXCEPT ![idx] = @ + 1]
                ELSE IF idx = M THEN None
                ELSE Tick([j \in 1..M |-> IF j <= idx THEN 0 ELSE p[j]], idx + 1)

Start(b, ax) == /\ phase = "idle"
                /\ axes' = ax /\ base' = b
                /\ pos' = [i \in 1..Len(ax) |-> 0]
                /\ outPos' = <<>> /\ outQ' = <<>> /\ phase' = "run"

Emit == /\ phase = "run" /\ pos # None
        /\ outPos' = Append(outPos, pos)
        /\ outQ' = Append(outQ, Overlay(pos))
        /\ pos' = Tick(pos, 1)
        /\ UNCHANGED <<axes, base, phase>>

Finish == /\ phase = "run" /\ pos = None
          /\ phase' = "idle"
          /\ UNCHANGED <<axes, base, pos, outPos, outQ>>

----------------------------------------------------------------------------
(* properties: the emitted positions are a duplicate-free prefix of the mixed-radix enumeration
   (axis 1 fastest) and, when the counter is exhausted, the whole Cartesian product *)
RECURSIVE Prod(_)
Prod(i) == IF i = 0 THEN 1 ELSE Prod(i - 1) * Len(axes[i].ch)
Digit(n, i) == (n \div Prod(i - 1)) % Len(axes[i].ch)
NthPos(n) == [i \in 1..M |-> Digit(n, i)]
PrefixOfProduct == \A n \in 1..Len(outPos) : outPos[n] = NthPos(n - 1)
NoDup == \A i, j \in 1..Len(outPos) : i # j => outPos[i] # outPos[j]
CompleteAtEnd == (phase = "run" /\ pos = None) => Len(outPos) = Prod(M)
Bounded == Len(outPos) <= Prod(M)
(* every generated query keeps the other fields, and holds the chosen value of each axis *)
FieldsOK == \A n \in 1..Len(outQ) :
              /\ \A k \in DOMAIN base :
                    (\A i \in 1..M : LET c == axes[i].ch[outPos[n][i] + 1] IN
                                       IF c.t = "s" THEN axes[i].key # k ELSE k \notin DOMAIN c.v)
                    => (k \in DOMAIN outQ[n] /\ outQ[n][k] = base[k])
              /\ LET c == axes[M].ch[outPos[n][M] + 1] IN      \* the last axis always wins
                    IF M = 0 THEN TRUE
                    ELSE IF c.t = "s" THEN outQ[n][axes[M].key] = c.v
                    ELSE \A k \in DOMAIN c.v : outQ[n][k] = c.v[k]
=============================================================================
