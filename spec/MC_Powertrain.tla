---------------------------- MODULE MC_Powertrain ----------------------------
(* histories of <= MaxEdges edges over small dyadic values: charge stays in range, exclusivity of the PHEV modes,
   energy additive (never decreases for non-negative rates), the unclamped law *)
EXTENDS Powertrain
CONSTANTS MaxEdges
VARIABLES n, lastE
D(k, e) == Norm(IF k < 0 THEN -1 ELSE 1, IF k < 0 THEN -k ELSE k, e)
Vehs == {[type |-> t, cap |-> SInt(c), adj |-> D(125, -2), ideal |-> D(2, -1), rateDU |-> "miles", rateDU2 |-> "miles", modelSU |-> "miles_per_hour",
          modelGU |-> "decimal", a |-> D(2, -1), b |-> D(1, -2), c |-> SInt(3), a2 |-> D(3, -2), b2 |-> SZero, c2 |-> D(1, -1)]
            : t \in {"ice", "bev", "phev"}, c \in {8, 16}}
Init == /\ n = 0 /\ lastE = SZero
        /\ \E v \in Vehs, s \in {SZero, D(3125, -3), SInt(50), SInt(100), SInt(101), D(-1, 0)} :
              /\ veh = v /\ pok = (s.s >= 0 /\ SLeq(s, S100))
              /\ pst = [soc |-> (IF v.type = "ice" THEN SZero ELSE Clamp(s)), ee |-> SZero, el |-> SZero]
Edge == /\ n < MaxEdges /\ pok
        /\ \E len \in {1, 4, 16}, sp \in {10, 40}, g \in {-3, 0, 2} :     \* miles, mph, grade in tenths (decimal)
              /\ TraverseEdge(SInt(sp), "miles_per_hour", D(g, -1), "decimal", SInt(len * 1609), "meters")
              /\ lastE' = EdgeEnergy(veh.a, veh.b, veh.c, veh.rateDU, SInt(sp), "miles_per_hour", D(g, -1), "decimal", SInt(len * 1609), "meters")
        /\ n' = n + 1
Next == Edge
Exclusive == [][(veh.type = "phev" /\ pok) => (pst'.ee = pst.ee \/ pst'.el = pst.el)]_<<veh, pst, pok, n, lastE>>
Unclamped == [][(veh.type = "bev" /\ pok /\ pst'.soc.s > 0 /\ SLt(pst'.soc, S100)) =>
                  SCloseTo(SSub(pst.soc, pst'.soc), SDiv(SMul(S100, lastE'), veh.cap), S100, 50)]_<<veh, pst, pok, n, lastE>>
=============================================================================
