CONSTANTS
  NV = 4
  Loops = TRUE
INIT Init
NEXT Next
INVARIANTS ResultOK Pass2Inv
CHECK_DEADLOCK FALSE
