CONSTANTS
  NV = 4
  MaxE = 5
  Lens = {1, 2}
INIT Init
NEXT Next
INVARIANTS ContractHolds AtEnd
PROPERTIES Terminates
CHECK_DEADLOCK FALSE
