CONSTANTS
  NV = 3
  MaxE = 4
  Lens = {1, 2}
  TermNs = {0, 1, 2, 3}
  Lean = FALSE
INIT Init
NEXT Next
INVARIANTS ContractHolds AtEnd OverK
PROPERTIES Terminates
CHECK_DEADLOCK FALSE
