INIT Init
NEXT Next
INVARIANTS Rendered FormatsAgree
CHECK_DEADLOCK FALSE
