CONSTANTS
  NK = 7
  MaxOps = 4
  Devs = {}
INIT Init
NEXT Next
INVARIANT Emit
CHECK_DEADLOCK FALSE
