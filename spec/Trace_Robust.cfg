SPECIFICATION TSpec
CONSTRAINT Track
INVARIANTS NotStop Served
POSTCONDITION TraceAccepted
CHECK_DEADLOCK FALSE
