------------------------------- MODULE Frontier -------------------------------
(***************************************************************************)
(* Edge-local admissibility (C04, C16): road classes and vehicle           *)
(* restrictions (frontier_model/road_class, vehicle_restrictions).         *)
(*  restriction  [kind, val, unit]   kind as in the restriction file       *)
(*  vehicle      [height, width, total_length, trailer_length,             *)
(*                total_weight : <<value, unit>>, number_of_axles]         *)
(* A restriction is satisfied when the vehicle's value, converted to the   *)
(* RESTRICTION's unit, does not exceed the limit.                          *)
(***************************************************************************)
EXTENDS Units

Param(kind, veh) == CASE kind = "maximum_total_weight" -> veh.total_weight
                      [] kind = "maximum_weight_per_axle" -> veh.total_weight
                      [] kind = "maximum_length" -> veh.total_length
                      [] kind = "maximum_width" -> veh.width
                      [] kind = "maximum_height" -> veh.height
                      [] kind = "maximum_trailer_length" -> veh.trailer_length
Family(kind) == IF kind \in {"maximum_total_weight", "maximum_weight_per_axle"} THEN "weight" ELSE "distance"
RestrictionOK(r, veh) ==
   LET p == Param(r.kind, veh)
       inUnit == Convert(Family(r.kind), p[2], r.unit, SInt(p[1]))
       v == IF r.kind = "maximum_weight_per_axle" THEN SDiv(inUnit, SInt(veh.number_of_axles)) ELSE inUnit
   IN SLeq(v, SInt(r.val))
(* every restriction of the edge must be satisfied (a combined model permits only if all do) *)
VehicleOK(rs, veh) == \A i \in DOMAIN rs : RestrictionOK(rs[i], veh)
ClassOK(cls, allowedOn, allowed) == ~allowedOn \/ \E i \in DOMAIN allowed : allowed[i] = cls
=============================================================================
