CONSTANTS
  CfgSink = FALSE
  CfgKeep = TRUE
  MaxQ = 3
  MaxPar = 3
  MaxItems = 3
INIT Init
NEXT Next
INVARIANTS BinsPartition OutOK MutualExclusion RecordsIntact FileOK
CHECK_DEADLOCK FALSE
