CONSTANTS
  MaxLines = 3
  MaxChunk = 2
INIT Init
NEXT Next
INVARIANTS ReachDoneChunks
CHECK_DEADLOCK FALSE
