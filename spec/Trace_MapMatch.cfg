SPECIFICATION TSpec
CONSTRAINT Track
INVARIANTS NotStop MatchOK ErrorOK
POSTCONDITION TraceAccepted
CHECK_DEADLOCK FALSE
