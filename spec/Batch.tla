-------------------------------- MODULE Batch --------------------------------
(***************************************************************************)
(* The batch pipeline of CompassApp::run and the response sink:            *)
(*   input stage   every query becomes its expansions (grid search) or one *)
(*                 error response (apply_input_plugins, partition)         *)
(*   error writes  the main thread writes the input-error responses to the *)
(*                 sink (one record each)                                  *)
(*   balance       greedy min-bin assignment of the processed items to     *)
(*                 `par` bins (apply_load_balancing_policy)                *)
(*   workers       one per bin, sequential inside a bin: run the query,    *)
(*                 then ResponseSink::write_response at the grain of its   *)
(*                 statements: lock, format, write row, write newline,     *)
(*                 bump the counter (flush), unlock; keep or drop          *)
(*   gather        returned = kept responses in bin order, then the input  *)
(*                 errors                                                  *)
(* An item is <<q, j>>: expansion j of query q.  batch[q] = [cls, k, w]:   *)
(* cls "ok" | "serr" (fails in search) | "perr" (fails in a plugin),       *)
(* k expansions, w weight estimate.                                        *)
(***************************************************************************)
EXTENDS Naturals, Sequences, FiniteSets, TLC

VARIABLES batch, par, processed, errors, bins, stage, pos, lock, file, counter, kept, out, phase, errpos,
          cfg      \* [sink |-> a file sink is configured, keep |-> responses are persisted in memory]
bvars == <<batch, par, processed, errors, bins, stage, pos, lock, file, counter, kept, out, phase, errpos, cfg>>
SinkOn == cfg.sink
Keep == cfg.keep

W == 1..par
RECURSIVE Expand(_, _)
Expand(b, q) == IF q > Len(b) THEN <<>>
                ELSE (IF b[q].cls = "perr" THEN <<>> ELSE [j \in 1..b[q].k |-> <<q, j>>]) \o Expand(b, q + 1)
RECURSIVE Errs(_, _)
Errs(b, q) == IF q > Len(b) THEN <<>> ELSE (IF b[q].cls = "perr" THEN <<q>> ELSE <<>>) \o Errs(b, q + 1)

(* greedy min-bin: the first bin of least total weight *)
MinBin(tot) == CHOOSE i \in DOMAIN tot : /\ \A j \in DOMAIN tot : tot[i] <= tot[j]
                                         /\ \A j \in 1..(i - 1) : tot[j] > tot[i]
RECURSIVE Greedy(_, _, _, _)
Greedy(items, i, tot, asg) ==
   IF i > Len(items) THEN asg
   ELSE LET b == MinBin(tot) IN
        Greedy(items, i + 1, [tot EXCEPT ![b] = @ + batch[items[i][1]].w], [asg EXCEPT ![b] = Append(@, items[i])])

Submit(b, p, c) == /\ phase = "idle" /\ batch' = b /\ par' = p /\ cfg' = c
                /\ processed' = Expand(b, 1) /\ errors' = Errs(b, 1)
                /\ bins' = <<>> /\ stage' = <<>> /\ pos' = <<>> /\ kept' = <<>>
                /\ lock' = 0 /\ file' = <<>> /\ counter' = 0 /\ out' = <<>> /\ errpos' = 1
                /\ phase' = "errors"

(* main thread: one sink record per input-error response, before the workers start *)
WriteError == /\ phase = "errors" /\ errpos <= Len(errors)
              /\ file' = IF SinkOn THEN Append(file, [owner |-> 0, item |-> <<errors[errpos], 0>>, closed |-> TRUE]) ELSE file
              /\ counter' = IF SinkOn THEN counter + 1 ELSE counter
              /\ errpos' = errpos + 1
              /\ UNCHANGED <<batch, par, processed, errors, bins, stage, pos, lock, kept, out, phase, cfg>>
Balance == /\ phase = "errors" /\ errpos > Len(errors)
           /\ bins' = IF processed = <<>> THEN [w \in W |-> <<>>]
                      ELSE Greedy(processed, 1, [w \in W |-> 0], [w \in W |-> <<>>])
           /\ stage' = [w \in W |-> "next"] /\ pos' = [w \in W |-> 1] /\ kept' = [w \in W |-> <<>>]
           /\ phase' = "run"
           /\ UNCHANGED <<batch, par, processed, errors, lock, file, counter, out, errpos, cfg>>

Item(w) == bins[w][pos[w]]
WRun(w)    == /\ phase = "run" /\ stage[w] = "next" /\ pos[w] <= Len(bins[w])
              /\ stage' = [stage EXCEPT ![w] = IF SinkOn THEN "ran" ELSE "written"]
              /\ UNCHANGED <<batch, par, processed, errors, bins, pos, lock, file, counter, kept, out, phase, errpos, cfg>>
WLock(w)   == /\ stage[w] = "ran" /\ lock = 0 /\ lock' = w /\ stage' = [stage EXCEPT ![w] = "locked"]
              /\ UNCHANGED <<batch, par, processed, errors, bins, pos, file, counter, kept, out, phase, errpos, cfg>>
WFormat(w) == /\ stage[w] = "locked" /\ stage' = [stage EXCEPT ![w] = "fmt"]
              /\ UNCHANGED <<batch, par, processed, errors, bins, pos, lock, file, counter, kept, out, phase, errpos, cfg>>
WRow(w)    == /\ stage[w] = "fmt" /\ stage' = [stage EXCEPT ![w] = "row"]
              /\ file' = Append(file, [owner |-> w, item |-> Item(w), closed |-> FALSE])
              /\ UNCHANGED <<batch, par, processed, errors, bins, pos, lock, counter, kept, out, phase, errpos, cfg>>
WNl(w)     == /\ stage[w] = "row" /\ stage' = [stage EXCEPT ![w] = "nl"]
              /\ file' = [file EXCEPT ![Len(file)].closed = TRUE]        \* writeln!: the newline closes the *last* record
              /\ UNCHANGED <<batch, par, processed, errors, bins, pos, lock, counter, kept, out, phase, errpos, cfg>>
WBump(w)   == /\ stage[w] = "nl" /\ stage' = [stage EXCEPT ![w] = "bumped"] /\ counter' = counter + 1
              /\ UNCHANGED <<batch, par, processed, errors, bins, pos, lock, file, kept, out, phase, errpos, cfg>>
WUnlock(w) == /\ stage[w] = "bumped" /\ lock = w /\ lock' = 0 /\ stage' = [stage EXCEPT ![w] = "written"]
              /\ UNCHANGED <<batch, par, processed, errors, bins, pos, file, counter, kept, out, phase, errpos, cfg>>
WKeep(w)   == /\ stage[w] = "written"
              /\ kept' = IF Keep THEN [kept EXCEPT ![w] = Append(@, Item(w))] ELSE kept
              /\ pos' = [pos EXCEPT ![w] = @ + 1] /\ stage' = [stage EXCEPT ![w] = "next"]
              /\ UNCHANGED <<batch, par, processed, errors, bins, lock, file, counter, out, phase, errpos, cfg>>
(* the whole locked section as one step (what a trace of the real sink can observe) *)
WWriteAtomic(w) == /\ stage[w] = "ran" /\ lock = 0
                   /\ file' = Append(file, [owner |-> w, item |-> Item(w), closed |-> TRUE])
                   /\ counter' = counter + 1 /\ stage' = [stage EXCEPT ![w] = "written"]
                   /\ UNCHANGED <<batch, par, processed, errors, bins, pos, lock, kept, out, phase, errpos, cfg>>

RECURSIVE Flat(_, _)
Flat(k, w) == IF w > par THEN <<>> ELSE k[w] \o Flat(k, w + 1)
AllDone == phase = "run" /\ \A w \in W : stage[w] = "next" /\ pos[w] > Len(bins[w])
Gather == /\ AllDone
          /\ out' = Flat(kept, 1) \o [i \in 1..Len(errors) |-> <<errors[i], 0>>]
          /\ phase' = "done"
          /\ UNCHANGED <<batch, par, processed, errors, bins, stage, pos, lock, file, counter, kept, errpos, cfg>>

WorkerStep == phase = "run" /\ \E w \in W : WRun(w) \/ WLock(w) \/ WFormat(w) \/ WRow(w) \/ WNl(w) \/ WBump(w) \/ WUnlock(w) \/ WKeep(w)
BatchNext == WriteError \/ Balance \/ WorkerStep \/ Gather

----------------------------------------------------------------------------
SetOfSeq(s) == {s[i] : i \in DOMAIN s}
Count(s, x) == Cardinality({i \in DOMAIN s : s[i] = x})
SameBag(a, b) == Len(a) = Len(b) /\ \A x \in SetOfSeq(a) \cup SetOfSeq(b) : Count(a, x) = Count(b, x)
AllItems == processed \o [i \in 1..Len(errors) |-> <<errors[i], 0>>]

(* C06 *)
BinsPartition == phase \in {"run", "done"} => SameBag(Flat(bins, 1), processed)
OutOK == phase = "done" =>
           IF Keep THEN SameBag(out, AllItems)
           ELSE /\ SameBag(out, [i \in 1..Len(errors) |-> <<errors[i], 0>>])
                /\ SinkOn => SameBag([i \in DOMAIN file |-> file[i].item], AllItems)   \* delivered to the sink instead
(* C19 *)
InSection(w) == stage[w] \in {"locked", "fmt", "row", "nl", "bumped"}
MutualExclusion == phase = "run" => \A w \in W : InSection(w) => lock = w
RecordsIntact == \A i \in DOMAIN file : file[i].closed \/ (i = Len(file) /\ file[i].owner # 0 /\ stage[file[i].owner] = "row")
FileOK == phase = "done" => (SinkOn => /\ SameBag([i \in DOMAIN file |-> file[i].item], AllItems)
                                       /\ \A i \in DOMAIN file : file[i].closed
                                       /\ counter = Len(AllItems))
=============================================================================
