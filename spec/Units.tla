-------------------------------- MODULE Units --------------------------------
(***************************************************************************)
(* Unit conversion (model/unit/*_unit.rs, builders.rs).  Every family has  *)
(* an exact integer table of physical sizes in a small base unit; the      *)
(* specified conversion is the exact rational x * size(from) / size(to),   *)
(* evaluated in six-digit decimal floating point (Sci).  The energy family *)
(* has no physical table (the property claims none): only the algebraic    *)
(* laws are required of it.                                                *)
(***************************************************************************)
EXTENDS Sci, Sequences, FiniteSets

Size == [ distance |-> [meters |-> 10000, kilometers |-> 10000000, miles |-> 16093440, inches |-> 254, feet |-> 3048],   \* 0.1 mm
          time     |-> [hours |-> 3600000, minutes |-> 60000, seconds |-> 1000, milliseconds |-> 1],                  \* ms
          speed    |-> [kilometers_per_hour |-> 1000000, miles_per_hour |-> 1609344, meters_per_second |-> 3600000],  \* mm/h
          grade    |-> [percent |-> 10, decimal |-> 1000, millis |-> 1],                                               \* per mille
          weight   |-> [pounds |-> 453592, tons |-> 907184740, kg |-> 1000000] ]                                        \* mg (short ton = 2000 lb)
Families == DOMAIN Size
UnitsOf(f) == IF f = "energy" THEN {"gallons_gasoline", "gallons_diesel", "kilowatt_hours"} ELSE DOMAIN Size[f]

(* weight sizes exceed a six-digit mantissa times the halves trick only in SInt: SInt normalises any int < 2^31 *)
Factor(f, from, to) == SDiv(SInt(Size[f][from]), SInt(Size[f][to]))
Convert(f, from, to, x) == SMul(x, Factor(f, from, to))

Rejected == [s |-> 2, m |-> 0, e |-> 0]
(* derived quantities, in base units then converted *)
CreateTime(speed, su, dist, du, tu) ==
   LET d == Convert("distance", du, "meters", dist)
       s == Convert("speed", su, "meters_per_second", speed)
   IN IF s.s <= 0 \/ d.s <= 0 THEN Rejected
      ELSE Convert("time", "seconds", tu, SDiv(d, s))
CreateSpeed(time, tu, dist, du, su) ==
   LET d == Convert("distance", du, "meters", dist)
       t == Convert("time", tu, "seconds", time)
   IN IF t.s <= 0 THEN Rejected
      ELSE Convert("speed", "meters_per_second", su, SDiv(d, t))
RateDistanceUnit == [gallons_gasoline_per_mile |-> "miles", gallons_diesel_per_mile |-> "miles",
                     kilowatt_hours_per_mile |-> "miles", kilowatt_hours_per_kilometer |-> "kilometers",
                     kilowatt_hours_per_meter |-> "meters"]
RateEnergyUnit == [gallons_gasoline_per_mile |-> "gallons_gasoline", gallons_diesel_per_mile |-> "gallons_diesel",
                   kilowatt_hours_per_mile |-> "kilowatt_hours", kilowatt_hours_per_kilometer |-> "kilowatt_hours",
                   kilowatt_hours_per_meter |-> "kilowatt_hours"]
CreateEnergy(rate, ru, dist, du) == SMul(rate, Convert("distance", du, RateDistanceUnit[ru], dist))

=============================================================================
