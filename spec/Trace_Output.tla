----------------------------- MODULE Trace_Output -----------------------------
(* Render events: the real TraversalOutputFormat on routes and trees produced by real searches, in   *)
(* all five formats (WKT / WKB / GeoJSON decoded back to coordinate lists by the harness).          *)
(* Ids events: the real UUID and summary output plugins on real search results.                     *)
EXTENDS Output, TraceLib
VARIABLE l
tvars == <<rq, rout, l>>
Ev == Rec[l]
Chk(name, cond) == IF cond THEN TRUE ELSE PrintT(<<"FAILED", name, l>>) /\ FALSE
T_Render == /\ Ev.ev = "Render" /\ Render(Ev.route, Ev.tree, Ev.geoms, Ev.out)
            /\ Chk("C20 edge-id list", RouteIdsOK') /\ Chk("C20 per-edge JSON records", RouteJsonOK')
            /\ Chk("C20 GeoJSON features (ids, properties, geometry per edge)", RouteGeoJsonOK')
            /\ Chk("C20 WKT geometry = concatenation in edge order (error when a geometry is missing)", RouteWktOK')
            /\ Chk("C20 WKB geometry = concatenation in edge order (error when a geometry is missing)", RouteWkbOK')
            /\ Chk("C20 tree outputs: one entry per branch", TreeIdsOK' /\ TreeJsonOK' /\ TreeGeoOK(rout.tree_geo_json)' /\ TreeGeoOK(rout.tree_wkt)' /\ TreeGeoOK(rout.tree_wkb)')
            /\ LET q == [route |-> Ev.route, tree |-> Ev.tree, geoms |-> Ev.geoms] IN
                /\ Chk("C20 output plugin: answers iff route and tree can be rendered, with the route as the format renders it",
                       /\ PluginBothOK(q, "edge_id", Ev.plug.edge_id) /\ PluginBothOK(q, "json", Ev.plug.json)
                       /\ PluginBothOK(q, "geo_json", Ev.plug.geo_json) /\ PluginBothOK(q, "wkt", Ev.plug.wkt) /\ PluginBothOK(q, "wkb", Ev.plug.wkb))
                /\ Chk("C20 output plugin, route only: fails iff the route cannot be rendered",
                       /\ PluginRouteOK(q, "edge_id", Ev.plug.edge_id_route_only) /\ PluginRouteOK(q, "json", Ev.plug.json_route_only)
                       /\ PluginRouteOK(q, "geo_json", Ev.plug.geo_json_route_only) /\ PluginRouteOK(q, "wkt", Ev.plug.wkt_route_only)
                       /\ PluginRouteOK(q, "wkb", Ev.plug.wkb_route_only))
T_Ids == /\ Ev.ev = "Ids" /\ UNCHANGED <<rq, rout>>
         /\ Chk("C20 origin / destination identifiers are those stored for the matched vertices",
                Ev.ok /\ Ev.o_uuid = Ev.table[Ev.o + 1] /\ Ev.d_uuid = Ev.table[Ev.d + 1])
         /\ Chk("C20 summary counts", Ev.route_edges = Ev.want_route_edges /\ Ev.tree_size = Ev.want_tree_size)
TInit == l = 1 /\ rq = [route |-> <<>>, tree |-> <<>>, geoms |-> <<>>] /\ rout = <<>>
TNext == l <= Len(Rec) /\ l' = l + 1 /\ (T_Render \/ T_Ids)
TSpec == TInit /\ [][TNext]_tvars
Track == TrackPos(l)
NotStop == NotStopped(l)
TraceAccepted == Accepted
=============================================================================
