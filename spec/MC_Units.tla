------------------------------ MODULE MC_Units ------------------------------
EXTENDS Units
(* model-level sanity of the tables (TLC evaluates these over every pair / triple) *)
VARIABLE probe
Pairs == {<<f, a, b>> : f \in Families, a \in UNION {UnitsOf(g) : g \in Families}, b \in UNION {UnitsOf(g) : g \in Families}}
UInit == probe \in {p \in Pairs : p[2] \in UnitsOf(p[1]) /\ p[3] \in UnitsOf(p[1])}
UNext == UNCHANGED probe
One == SInt(1)
IdentityLaw == probe[2] = probe[3] => Factor(probe[1], probe[2], probe[3]) = One
RoundTripLaw == SClose(SMul(Factor(probe[1], probe[2], probe[3]), Factor(probe[1], probe[3], probe[2])), One, 20)
TransitiveLaw == \A c \in UnitsOf(probe[1]) :
                    SClose(SMul(Factor(probe[1], probe[2], c), Factor(probe[1], c, probe[3])),
                           Factor(probe[1], probe[2], probe[3]), 20)
=============================================================================
