------------------------------- MODULE Network -------------------------------
(***************************************************************************)
(* Loading the road network (graph_loader.rs, edge_loader.rs,              *)
(* vertex_loader.rs, Graph accessors).  The files are sequences of rows;   *)
(* the loader consumes the edge rows one at a time, filling the forward    *)
(* and reverse adjacency (insertion-ordered maps edge id -> far vertex,    *)
(* see OrderedMap) and the edge table.                                     *)
(*   erows  edge rows <<edge id, src, dst, length>> (ids 0-based as in the *)
(*          files; the documented precondition is id = row index)          *)
(*   vrows  vertex rows <<vertex id, x, y>>                                *)
(*   adj, rev  per vertex: sequence of <<edge id, other vertex>>           *)
(***************************************************************************)
EXTENDS Naturals, Integers, Sequences, FiniteSets, TLC

VARIABLES erows, vrows, nv, next, adj, rev, edges, phase
nvars == <<erows, vrows, nv, next, adj, rev, edges, phase>>

Has(s, k)  == \E i \in 1..Len(s) : s[i][1] = k
Idx(s, k)  == CHOOSE i \in 1..Len(s) : s[i][1] = k
Put(s, k, v) == IF Has(s, k) THEN [s EXCEPT ![Idx(s, k)] = <<k, v>>] ELSE Append(s, <<k, v>>)

Begin(er, vr, n) == /\ erows' = er /\ vrows' = vr /\ nv' = n /\ next' = 1
                    /\ adj' = [v \in 0..(n - 1) |-> <<>>] /\ rev' = [v \in 0..(n - 1) |-> <<>>]
                    /\ edges' = <<>> /\ phase' = "edges"
(* the callback of EdgeLoader for one row: vertices beyond the declared count are skipped silently *)
LoadEdgeRow == /\ phase = "edges" /\ next <= Len(erows)
               /\ LET r == erows[next] IN
                    /\ adj' = IF r[2] \in DOMAIN adj THEN [adj EXCEPT ![r[2]] = Put(@, r[1], r[3])] ELSE adj
                    /\ rev' = IF r[3] \in DOMAIN rev THEN [rev EXCEPT ![r[3]] = Put(@, r[1], r[2])] ELSE rev
                    /\ edges' = Append(edges, r)
               /\ next' = next + 1 /\ UNCHANGED <<erows, vrows, nv, phase>>
FinishLoad == /\ phase = "edges" /\ next > Len(erows) /\ phase' = "loaded"
              /\ UNCHANGED <<erows, vrows, nv, next, adj, rev, edges>>

(* accessors of Graph on the loaded state *)
OutEdges(v) == [i \in 1..Len(adj[v]) |-> adj[v][i][1]]
InEdges(v)  == [i \in 1..Len(rev[v]) |-> rev[v][i][1]]
SetOf(s) == {s[i] : i \in DOMAIN s}

(* the network the files describe *)
RowsLoaded == 1..(next - 1)
WellFormed == \A i \in DOMAIN erows : erows[i][1] = i - 1 /\ erows[i][2] \in 0..(nv - 1) /\ erows[i][3] \in 0..(nv - 1)
TopologyOK == WellFormed =>
   /\ \A v \in DOMAIN adj :
         /\ SetOf(OutEdges(v)) = {erows[i][1] : i \in {j \in RowsLoaded : erows[j][2] = v}}
         /\ SetOf(InEdges(v))  = {erows[i][1] : i \in {j \in RowsLoaded : erows[j][3] = v}}
         /\ Len(adj[v]) = Cardinality(SetOf(OutEdges(v))) /\ Len(rev[v]) = Cardinality(SetOf(InEdges(v)))
         /\ \A i \in 1..Len(adj[v]) : adj[v][i][2] = erows[adj[v][i][1] + 1][3]
         /\ \A i \in 1..Len(rev[v]) : rev[v][i][2] = erows[rev[v][i][1] + 1][2]
   /\ edges = SubSeq(erows, 1, next - 1)
(* forward and reverse views always describe the same edge set *)
AdjRevSame == WellFormed =>
   UNION {SetOf(OutEdges(v)) : v \in DOMAIN adj} = UNION {SetOf(InEdges(v)) : v \in DOMAIN rev}
=============================================================================
