---------------------------- MODULE Trace_Network ----------------------------
(* Files written by the harness -> Graph::from_files of the real code -> one     *)
(* Loaded event dumping the public accessors; the specification loads the same   *)
(* rows (silent LoadEdgeRow steps) and must arrive at the same network.  Edge    *)
(* order inside an adjacency list is not part of the property (sets compared).   *)
EXTENDS Network, TraceLib
VARIABLE l
tvars == <<erows, vrows, nv, next, adj, rev, edges, phase, l>>
Ev == Rec[l]

T_Files == /\ Ev.ev = "Files" /\ Begin(Ev.erows, Ev.vrows, Ev.nv)
S_Load == LoadEdgeRow /\ UNCHANGED l
S_Finish == FinishLoad /\ UNCHANGED l
T_Loaded == /\ Ev.ev = "Loaded" /\ phase = "loaded"
            /\ Ev.ne = Len(erows) /\ Ev.nv = nv
            /\ Ev.edges = edges                                   \* every edge by id: src, dst, length
            /\ \A v \in 0..(nv - 1) :
                  /\ SetOf(Ev.out[v + 1]) = SetOf(OutEdges(v)) /\ Len(Ev.out[v + 1]) = Len(adj[v])
                  /\ SetOf(Ev.inn[v + 1]) = SetOf(InEdges(v)) /\ Len(Ev.inn[v + 1]) = Len(rev[v])
                  /\ SetOf(Ev.outfwd[v + 1]) = SetOf(OutEdges(v)) /\ SetOf(Ev.inrev[v + 1]) = SetOf(InEdges(v))
            /\ Ev.verts = vrows                                   \* coordinates by vertex id
            /\ Ev.srcs = [i \in DOMAIN erows |-> erows[i][2]] /\ Ev.dsts = [i \in DOMAIN erows |-> erows[i][3]]
            /\ phase' = "idle" /\ UNCHANGED <<erows, vrows, nv, next, adj, rev, edges>>
(* the same files behind a whole application: every edge by id through SearchAppGraphOps (origin, destination, length  *)
(* as stored and in requested units), the incident edges of every vertex in both directions, no edge beyond the last *)
T_AppGraph == /\ Ev.ev = "AppGraph" /\ phase = "idle" /\ edges # <<>>
              /\ Ev.edges = edges
              /\ Ev.m = [i \in DOMAIN edges |-> edges[i][4]] /\ Ev.km_milli = [i \in DOMAIN edges |-> edges[i][4]]
              /\ \A v \in 0..(nv - 1) : SetOf(Ev.out[v + 1]) = SetOf(OutEdges(v)) /\ SetOf(Ev.inn[v + 1]) = SetOf(InEdges(v))
              /\ Ev.beyond_is_error
              /\ UNCHANGED nvars
T_Table == /\ Ev.ev = "Table" /\ Ev.loaded = Ev.written /\ UNCHANGED nvars
TInit == /\ l = 1 /\ erows = <<>> /\ vrows = <<>> /\ nv = 0 /\ next = 1 /\ adj = <<>> /\ rev = <<>> /\ edges = <<>>
         /\ phase = "idle"
TNext == \/ (l <= Len(Rec) /\ l' = l + 1 /\ (T_Files \/ T_Loaded \/ T_AppGraph \/ T_Table))
         \/ S_Load \/ S_Finish
TSpec == TInit /\ [][TNext]_tvars
Track == TrackPos(l)
NotStop == NotStopped(l)
TraceAccepted == Accepted
=============================================================================
