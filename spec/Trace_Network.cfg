SPECIFICATION TSpec
CONSTRAINT Track
INVARIANTS NotStop TopologyOK AdjRevSame
POSTCONDITION TraceAccepted
CHECK_DEADLOCK FALSE
