------------------------------ MODULE Trace_Units ------------------------------
(* Every recorded conversion / constructor call of the real code is compared with *)
(* the exact table of Units (0.1 %; 0.2 % where two conversions and a division    *)
(* compose), and the algebraic laws are checked on the recorded values themselves. *)
EXTENDS Units, TraceLib
VARIABLE l
tvars == <<l>>
Ev == Rec[l]

T_Conv == /\ Ev.ev = "Conv"
          /\ Ev.from \in UnitsOf(Ev.fam) /\ Ev.to \in UnitsOf(Ev.fam)
          /\ Ev.from = Ev.to => Ev.same                                           \* identity, exactly
          /\ Ev.fam # "energy" => SClose(Ev.y, Convert(Ev.fam, Ev.from, Ev.to, Ev.x), 1000)   \* physical factor
          /\ SClose(Ev.back, Ev.x, 1000)                                          \* there and back
          /\ Ev.yneg = SNeg(Ev.y)                                                 \* odd
          /\ SClose(Ev.fab, SAdd(Ev.fa, Ev.fb), 20)                               \* additive
          /\ SClose(Ev.fka, SMul(SInt(Ev.k), Ev.fa), 20)                          \* homogeneous
T_CTime == /\ Ev.ev = "CTime"
           /\ LET want == CreateTime(Ev.speed, Ev.su, Ev.dist, Ev.du, Ev.tu) IN
                IF want = Rejected THEN ~Ev.ok ELSE Ev.ok /\ SClose(Ev.res, want, 2000)
T_CSpeed == /\ Ev.ev = "CSpeed"
            /\ LET want == CreateSpeed(Ev.time, Ev.tu, Ev.dist, Ev.du, Ev.su) IN
                 IF want = Rejected THEN ~Ev.ok ELSE Ev.ok /\ SClose(Ev.res, want, 2000)
T_CEnergy == /\ Ev.ev = "CEnergy"
             /\ Ev.ok /\ Ev.eu = RateEnergyUnit[Ev.ru]
             /\ SClose(Ev.res, CreateEnergy(Ev.rate, Ev.ru, Ev.dist, Ev.du), 2000)
TInit == l = 1
TNext == l <= Len(Rec) /\ l' = l + 1 /\ (T_Conv \/ T_CTime \/ T_CSpeed \/ T_CEnergy)
TSpec == TInit /\ [][TNext]_tvars
Track == TrackPos(l)
NotStop == NotStopped(l)
TraceAccepted == Accepted
=============================================================================
