------------------------------ MODULE MC_Robust ------------------------------
(* consistency of the contract: for every batch of <= 3 class entries a conforming reply exists and is accepted *)
EXTENDS Robust
CONSTANT MaxB
Entries == {[cls |-> "valid", n |-> 1, answerable |-> TRUE, tag |-> "v"], [cls |-> "valid", n |-> 2, answerable |-> TRUE, tag |-> "g"],
            [cls |-> "valid", n |-> 1, answerable |-> FALSE, tag |-> "u"],
            [cls |-> "hostile", n |-> 1, answerable |-> FALSE, tag |-> "h"], [cls |-> "any", n |-> 1, answerable |-> FALSE, tag |-> "a"]}
Batches == UNION {[1..k -> Entries] : k \in 0..MaxB}
RECURSIVE Reply(_, _)
Reply(b, q) == IF q > Len(b) THEN <<>>
               ELSE [j \in 1..b[q].n |-> [q |-> q, echo |-> TRUE, err |-> b[q].cls = "hostile"]] \o Reply(b, q + 1)
Init == rbatch = <<>> /\ rphase = "idle" /\ served = <<>>
Next == (\E b \in Batches : RSubmit(b)) \/ RReturned(Reply(rbatch, 1))
Live == rphase = "submitted" => ENABLED RReturned(Reply(rbatch, 1))
=============================================================================
