----------------------------- MODULE OrderedMap -----------------------------
(***************************************************************************)
(* CompactOrderedHashMap (routee-compass-core/src/util/                    *)
(* compact_ordered_hash_map.rs) at two levels:                             *)
(*   m    the abstract meaning: the sequence of <<key, value>> pairs in    *)
(*        insertion order (an overwrite keeps the position);               *)
(*   rep  the representation the code keeps: a "small" variant holding up  *)
(*        to four pairs positionally, or the "N" variant, a hash map       *)
(*        key -> [v, idx] whose idx fields carry the order.                *)
(* One action per public mutator.  Refines says that every public observer *)
(* computed from rep *as the code computes it* equals the observer of m.   *)
(* Devs is the set of named deviations that are switched on (always {} in  *)
(* model checking of the property).                                       *)
(***************************************************************************)
EXTENDS Naturals, Integers, Sequences, FiniteSets, TLC

CONSTANTS NK,        \* keys are 1..NK
          MaxOps,    \* bound on the number of mutator calls (model checking only)
          Devs       \* enabled deviations

VARIABLES m, rep, nops, hist

KeySet == 1..NK
None == -1

----------------------------------------------------------------------------
(* abstract level *)
Has(s, k)  == \E i \in 1..Len(s) : s[i][1] = k
Idx(s, k)  == CHOOSE i \in 1..Len(s) : s[i][1] = k
Put(s, k, v) == IF Has(s, k) THEN [s EXCEPT ![Idx(s, k)] = <<k, v>>] ELSE Append(s, <<k, v>>)
RECURSIVE PutAll(_, _)
PutAll(s, es) == IF es = <<>> THEN s ELSE PutAll(Put(s, Head(es)[1], Head(es)[2]), Tail(es))
DistinctKeys(es) == \A i, j \in 1..Len(es) : i # j => es[i][1] # es[j][1]

AObs(s) == [ len   |-> Len(s),
             keys  |-> [i \in 1..Len(s) |-> s[i][1]],
             iter  |-> s,
             get   |-> [k \in KeySet |-> IF Has(s, k) THEN s[Idx(s, k)][2] ELSE None],
             index |-> [k \in KeySet |-> IF Has(s, k) THEN Idx(s, k) - 1 ELSE None],
             pair  |-> [j \in 1..(NK + 2) |-> IF j <= Len(s) THEN s[j] ELSE <<>>],   \* get_pair(j-1)
             tovec |-> [i \in 1..Len(s) |-> <<s[i][1], i - 1, s[i][2]>>],
             into  |-> [i \in 1..Len(s) |-> <<s[i][1], i - 1, s[i][2]>>] ]

----------------------------------------------------------------------------
(* representation level, transcribed from the code *)
EmptyRep == [tag |-> "N", small |-> <<>>, map |-> <<>>]            \* NEntries(HashMap::new())
SmallRep(s) == [tag |-> "S", small |-> s, map |-> <<>>]
NRep(f) == [tag |-> "N", small |-> <<>>, map |-> f]
MapOfSeq(es) ==  \* entries.into_iter().enumerate().collect::<HashMap>() - a later duplicate wins
   LET ks == {es[i][1] : i \in 1..Len(es)}
       last(k) == CHOOSE i \in 1..Len(es) : es[i][1] = k /\ \A j \in 1..Len(es) : es[j][1] = k => j <= i
   IN [k \in ks |-> [v |-> es[last(k)][2], idx |-> last(k) - 1]]

CNew(es) == IF Len(es) = 0 THEN EmptyRep
            ELSE IF Len(es) <= 4 /\ DistinctKeys(es) THEN SmallRep(es)
            ELSE NRep(MapOfSeq(es))

CLen(r) == IF r.tag = "S" THEN Len(r.small) ELSE Cardinality(DOMAIN r.map)

NewIndex(n) == IF "F-C11-a" \in Devs THEN n + 1 ELSE n       \* code before the fix: map.len() + 1

CInsert(r, k, v) ==
   IF r.tag = "N" /\ CLen(r) = 0 THEN SmallRep(<<<<k, v>>>>)
   ELSE IF r.tag = "S"
        THEN IF Has(r.small, k) THEN SmallRep([r.small EXCEPT ![Idx(r.small, k)] = <<k, v>>])
             ELSE IF Len(r.small) < 4 THEN SmallRep(Append(r.small, <<k, v>>))
             ELSE NRep([x \in {r.small[i][1] : i \in 1..4} \cup {k} |->
                          IF x = k THEN [v |-> v, idx |-> 4]
                          ELSE [v |-> r.small[Idx(r.small, x)][2], idx |-> Idx(r.small, x) - 1]])
        ELSE LET i == IF k \in DOMAIN r.map THEN r.map[k].idx ELSE NewIndex(Cardinality(DOMAIN r.map))
             IN NRep([x \in DOMAIN r.map \cup {k} |-> IF x = k THEN [v |-> v, idx |-> i] ELSE r.map[x]])

RECURSIVE CInsertAll(_, _)
CInsertAll(r, es) == IF es = <<>> THEN r ELSE CInsertAll(CInsert(r, Head(es)[1], Head(es)[2]), Tail(es))

(* observers as coded *)
CGetPair(r, i) ==   \* i is 0-based
   IF r.tag = "S" THEN (IF i < Len(r.small) THEN r.small[i + 1] ELSE <<>>)
   ELSE IF i > Cardinality(DOMAIN r.map) THEN <<>>
        ELSE IF \E k \in DOMAIN r.map : r.map[k].idx = i
             THEN LET k == CHOOSE k \in DOMAIN r.map : r.map[k].idx = i IN <<k, r.map[k].v>>
             ELSE <<>>
RECURSIVE CIterFrom(_, _)
CIterFrom(r, i) == IF i >= CLen(r) \/ CGetPair(r, i) = <<>> THEN <<>>
                   ELSE <<CGetPair(r, i)>> \o CIterFrom(r, i + 1)
CIter(r) == CIterFrom(r, 0)
RECURSIVE SortByIdx(_, _)
SortByIdx(f, ks) == IF ks = {} THEN <<>>
                    ELSE LET k == CHOOSE k \in ks : \A j \in ks : f[k].idx <= f[j].idx
                         IN <<k>> \o SortByIdx(f, ks \ {k})
CKeys(r) == IF r.tag = "S" THEN [i \in 1..Len(r.small) |-> r.small[i][1]]
            ELSE SortByIdx(r.map, DOMAIN r.map)
CGet(r, k) == IF r.tag = "S" THEN (IF Has(r.small, k) THEN r.small[Idx(r.small, k)][2] ELSE None)
              ELSE IF k \in DOMAIN r.map THEN r.map[k].v ELSE None
CIndex(r, k) == IF r.tag = "S" THEN (IF Has(r.small, k) THEN Idx(r.small, k) - 1 ELSE None)
                ELSE IF k \in DOMAIN r.map THEN r.map[k].idx ELSE None
CInto(r) == IF r.tag = "S" THEN [i \in 1..Len(r.small) |-> <<r.small[i][1], i - 1, r.small[i][2]>>]
            ELSE LET ks == SortByIdx(r.map, DOMAIN r.map)
                 IN [i \in 1..Len(ks) |-> <<ks[i], r.map[ks[i]].idx, r.map[ks[i]].v>>]

CObs(r) == [ len   |-> CLen(r),
             keys  |-> CKeys(r),
             iter  |-> CIter(r),
             get   |-> [k \in KeySet |-> CGet(r, k)],
             index |-> [k \in KeySet |-> CIndex(r, k)],
             pair  |-> [j \in 1..(NK + 2) |-> CGetPair(r, j - 1)],
             tovec |-> LET it == CIter(r) IN [i \in 1..Len(it) |-> <<it[i][1], i - 1, it[i][2]>>],
             into  |-> CInto(r) ]

----------------------------------------------------------------------------
(* actions: one per public mutator / constructor *)
vars == <<m, rep, nops, hist>>

New(es) == /\ DistinctKeys(es)          \* documented precondition of new(): distinct keys
           /\ m' = es /\ rep' = CNew(es)
FromIter(es) == m' = PutAll(<<>>, es) /\ rep' = CInsertAll(EmptyRep, es)
Insert(k, v) == m' = Put(m, k, v) /\ rep' = CInsert(rep, k, v)

(* model-checking driver: new key = smallest unused key (symmetry), value = op number *)
Prefix(n) == [i \in 1..n |-> <<i, 100 + i>>]
NextKey == IF Len(m) < NK THEN {Len(m) + 1} ELSE {}
UsedKeys == {m[i][1] : i \in 1..Len(m)}

Init == /\ nops = 0
        /\ \E n \in 0..NK : m = Prefix(n) /\ rep = CNew(Prefix(n)) /\ hist = <<<<0, n>>>>   \* new(prefix of n pairs)
InitIter == /\ nops = 0 /\ hist = <<>> /\ m = <<>> /\ rep = EmptyRep

DoInsert == /\ nops < MaxOps
            /\ \E k \in UsedKeys \cup NextKey : Insert(k, nops + 1) /\ hist' = Append(hist, <<k, nops + 1>>)
            /\ nops' = nops + 1
Next == DoInsert
Spec == Init /\ [][Next]_vars

----------------------------------------------------------------------------
(* properties *)
Refines == CObs(rep) = AObs(m)
SlotsDense == LET o == CObs(rep) IN
                 /\ {o.index[k] : k \in {k \in KeySet : o.get[k] # None}} = 0..(o.len - 1)
                 /\ Len(o.iter) = o.len /\ Len(o.keys) = o.len
                 /\ \A k \in KeySet : o.index[k] # None => o.pair[o.index[k] + 1] = <<k, o.get[k]>>
OverwriteKeepsSlot == [][\A k \in KeySet : CIndex(rep, k) # None => CIndex(rep', k) = CIndex(rep, k)]_vars
=============================================================================
