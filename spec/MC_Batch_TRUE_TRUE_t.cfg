CONSTANTS
  CfgSink = TRUE
  CfgKeep = TRUE
  MaxQ = 4
  MaxPar = 3
  MaxItems = 4
INIT Init
NEXT Next
INVARIANTS BinsPartition OutOK MutualExclusion RecordsIntact FileOK
CHECK_DEADLOCK FALSE
