SPECIFICATION TSpec
CONSTRAINT Track
INVARIANTS NotStop PrefixOfProduct NoDup CompleteAtEnd Bounded FieldsOK
POSTCONDITION TraceAccepted
CHECK_DEADLOCK FALSE
