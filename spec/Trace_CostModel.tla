--------------------------- MODULE Trace_CostModel ---------------------------
(* One Charge event per real EdgeTraversal::{forward,reverse}_traversal call    *)
(* (+ CostModel::cost_estimate) on a scenario-built cost model; the specified   *)
(* charge is recomputed by TLC from the scenario and compared.                  *)
EXTENDS CostModel, TraceLib
VARIABLE l
tvars == <<case, res, l>>
Ev == Rec[l]
Devs == TraceDevs
CaseOf(ev) == [agg |-> ev.agg, F |-> ev.F, prev |-> ev.prev]
Scaled(c) == 1000 * c
Matches(ev, c) == IF c = Floor THEN ev.floored ELSE (~ev.floored /\ ev.tot = Scaled(c))

(* the access component reported for the edge is CostModel::access_cost for the pair (previous, this) in travel order: *)
(* rated access change plus the per-turn surcharges of exactly that pair; nothing without a previous edge             *)
AccOK(ev) == IF ev.prev
             THEN LET a == AccessCost(ev.agg, ev.F) IN IF a = Floor THEN ev.acc = 0 ELSE ev.acc = Scaled(a)
             ELSE ev.acc = 0
T_Charge == /\ Ev.ev = "Charge" /\ Charge(CaseOf(Ev))
            /\ AccOK(Ev)
            /\ Ev.finite /\ Ev.positive                      \* finite and strictly positive, always
            /\ Ev.est_finite /\ Ev.est_nonneg
            /\ Ev.est = Scaled(res'.est)
            /\ Ev.delta = DT(Ev.F, Ev.prev)                            \* the state change really was access + traversal
            /\ IF Matches(Ev, res'.charged) THEN TRUE
               ELSE /\ "F-C07-a" \in Devs /\ Ev.agg = "sum" /\ Ev.prev /\ NAcc("sum", Ev.F) # 0
                    /\ Matches(Ev, AsCoded("sum", Ev.F, TRUE))
                    /\ Known("C07", "F-C07-a")
TInit == l = 1 /\ case = [agg |-> "sum", F |-> <<>>, prev |-> FALSE] /\ res = [charged |-> Floor, est |-> 0]
TNext == l <= Len(Rec) /\ l' = l + 1 /\ T_Charge
TSpec == TInit /\ [][TNext]_tvars
Track == TrackPos(l)
NotStop == NotStopped(l)
TraceAccepted == Accepted
=============================================================================
