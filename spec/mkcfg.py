#!/usr/bin/env python3
"""Generates the MC_Search_*.cfg family from one table (single source of truth)."""
BASE = dict(NV=3, MaxE=3, Lens="{1, 2}", Spds="{1}", Heads="{0}", HVals="{0, 1000, 2000}", Dirs='{"fwd", "rev"}',
            TieVals="{FALSE}", MaxBad=0, Limits="<- NoLimits", Delays="<- NoDelay", Weights="<- DistOnly",
            Surs="{0}", CUs="<- BaseCU", Rts="<- NoRt", NoDst="TRUE", OkSubsets="FALSE", NeedConsistent="FALSE")
INV = "TreeEdgeOK TreeRooted TreeMono TreeAllowed AtDone IterBound SizeBound RtBound"
V = {
 "q": {},
 "": dict(MaxE=4),
 "n4": dict(NV=4, MaxE=3, HVals="{0, 2000}"),
 "n4e4": dict(NV=4, MaxE=4, HVals="{0, 2000}", Dirs='{"fwd"}'),
 "cost_q": dict(Lens="{2, 4}", Spds="{1, 2}", Weights="<- Blend", Surs="{0, 1}", HVals="{0, 2000}", MaxE=2, NoDst="FALSE"),
 "cost": dict(Lens="{2, 4}", Spds="{1, 2}", Weights="<- Blend", Surs="{0, 1}", HVals="{0, 2000}", MaxE=3, NoDst="FALSE", Dirs='{"fwd"}'),
 "delay_q": dict(Heads="{0, 180}", Delays="<- SomeDelay", Weights="<- TimeOnly", HVals="{0, 3000}", MaxE=3, Dirs='{"fwd"}', NoDst="FALSE", TieVals="{FALSE, TRUE}"),
 "delay": dict(Heads="{0, 90, 180}", Delays="<- SomeDelay", Weights="<- TimeOnly", HVals="{0, 3000}", MaxE=3, NoDst="FALSE", TieVals="{FALSE, TRUE}"),
 "front_q": dict(MaxBad=1, OkSubsets="TRUE", HVals="{0, 2000}", MaxE=3, NoDst="TRUE", Dirs='{"fwd"}'),
 "front": dict(MaxBad=2, OkSubsets="TRUE", HVals="{0, 2000}", MaxE=3, NoDst="TRUE"),
 "units_q": dict(Lens="{36, 72}", Spds="{1, 2}", Weights="<- Blend", CUs="<- MixedCU", HVals="{0, 30}", MaxE=2, NoDst="FALSE", Dirs='{"fwd"}'),
 "units": dict(Lens="{36, 72}", Spds="{1, 2}", Weights="<- Blend", CUs="<- MixedCU", HVals="{0, 30}", MaxE=3, NoDst="FALSE"),
 "rt_q": dict(Limits="<- FewLimits", Rts="<- SomeRt", HVals="{0, 2000}", MaxE=3, Dirs='{"fwd"}', NoDst="FALSE"),
 "rt": dict(Limits="<- BothLimits", Rts="<- SomeRt", HVals="{0, 2000}", MaxE=3),
 "limits_q": dict(Limits="<- BothLimits", HVals="{0, 2000}", MaxE=3),
 "limits": dict(Limits="<- AllLimits", HVals="{0, 2000}", MaxE=4, Dirs='{"fwd"}'),
}
for name, over in V.items():
    c = dict(BASE); c.update(over)
    lines = ["CONSTANTS"]
    for k, v in c.items():
        lines.append("  %s %s" % (k, v if str(v).startswith("<-") else "= %s" % v))
    lines += ["INIT Init", "NEXT Next", "INVARIANTS " + INV, "CHECK_DEADLOCK FALSE"]
    open("MC_Search%s.cfg" % ("_" + name if name else ""), "w").write("\n".join(lines) + "\n")
    g = [l for l in lines if not l.startswith("INVARIANTS") and not l.startswith("NEXT")] + ["NEXT NextGen", "INVARIANTS Emit"]
    open("Gen_Search%s.cfg" % ("_" + name if name else ""), "w").write("\n".join(g) + "\n")
