SPECIFICATION TSpec
CONSTRAINT Track
INVARIANTS NotStop TreeEdgeOK TreeRooted TreeMono TreeAllowed IterBound SizeBound
POSTCONDITION TraceAccepted
CHECK_DEADLOCK FALSE
