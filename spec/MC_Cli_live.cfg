CONSTANTS
  MaxLines = 3
  MaxChunk = 2
SPECIFICATION Spec
PROPERTY Terminates
CHECK_DEADLOCK FALSE
