CONSTANTS
  NV = 3
  MaxRows = 4
  Star = FALSE
INIT Init
NEXT Next
INVARIANTS TopologyOK AdjRevSame
CHECK_DEADLOCK FALSE
