------------------------------ MODULE Powertrain ------------------------------
(***************************************************************************)
(* Vehicle energy along a route (energy_traversal_model.rs, vehicle/       *)
(* default/{ice,bev,phev}.rs, vehicle_ops.rs, prediction_model_record.rs). *)
(* Numbers are six-digit decimals (Sci).                                   *)
(*  veh  [type "ice"|"bev"|"phev", cap (battery capacity, kWh), adj (real- *)
(*        world adjustment), ideal (ideal rate used for the best case),    *)
(*        rateDU (distance unit of the energy rates), a, b, c (the         *)
(*        prediction model: rate = a + b*speed + c*grade in the model's    *)
(*        speed / grade units; a2, b2, c2 the charge-sustaining model),    *)
(*        modelSU, modelGU (units the prediction model works in)]          *)
(*  pst  [soc, ee, el]  state of charge (percent), electric energy, liquid *)
(*        energy accumulated                                               *)
(***************************************************************************)
EXTENDS Units

VARIABLES veh, pst, pok
pvars == <<veh, pst, pok>>

S100 == SInt(100)
Clamp(x) == IF x.s <= 0 THEN SZero ELSE IF SLeq(S100, x) THEN S100 ELSE x
(* a starting charge outside 0..100 is rejected *)
StartQuery(v, soc0) == /\ veh' = v
                       /\ pok' = (v.type = "ice" \/ (soc0.s >= 0 /\ SLeq(soc0, S100)))      \* no battery, no starting charge
                       /\ pst' = [soc |-> (IF v.type = "ice" THEN SZero ELSE Clamp(soc0)), ee |-> SZero, el |-> SZero]

Rate(a, b, c, speed, grade) == SAdd(a, SAdd(SMul(b, speed), SMul(c, grade)))
(* energy for one edge: rate(speed, grade) x adjustment x length, length in the rate's distance unit *)
EdgeEnergy(a, b, c, rdu, speed, su, grade, gu, len, lu) ==
   LET s == Convert("speed", su, veh.modelSU, speed)
       g == Convert("grade", gu, veh.modelGU, grade)
       d == Convert("distance", lu, rdu, len)
   IN SMul(SMul(Rate(a, b, c, s, g), veh.adj), d)
(* magnitude of the terms that make up an edge's energy (tolerances are relative to it: a rate near zero is a
   difference of larger terms) *)
GrossEnergy(a, b, c, rdu, speed, su, grade, gu, len, lu) ==
   LET s == Convert("speed", su, veh.modelSU, speed)
       g == Convert("grade", gu, veh.modelGU, grade)
       d == Convert("distance", lu, rdu, len)
   IN SMul(SMul(SAdd(SAbs(a), SAdd(SAbs(SMul(b, s)), SAbs(SMul(c, g)))), veh.adj), SAbs(d))
SocAfter(soc, e) == Clamp(SSub(soc, SDiv(SMul(S100, e), veh.cap)))

Step(from, speed, su, grade, gu, len, lu) ==
   CASE veh.type = "ice" ->
           [from EXCEPT !.el = SAdd(@, EdgeEnergy(veh.a, veh.b, veh.c, veh.rateDU, speed, su, grade, gu, len, lu))]
     [] veh.type = "bev" ->
           LET e == EdgeEnergy(veh.a, veh.b, veh.c, veh.rateDU, speed, su, grade, gu, len, lu)
           IN [from EXCEPT !.ee = SAdd(@, e), !.soc = SocAfter(@, e)]
     [] veh.type = "phev" ->
           IF from.soc.s > 0                                     \* charge remaining at the START of the edge
           THEN LET e == EdgeEnergy(veh.a, veh.b, veh.c, veh.rateDU, speed, su, grade, gu, len, lu)
                IN [from EXCEPT !.ee = SAdd(@, e), !.soc = SocAfter(@, e)]
           ELSE [from EXCEPT !.el = SAdd(@, EdgeEnergy(veh.a2, veh.b2, veh.c2, veh.rateDU2, speed, su, grade, gu, len, lu))]
TraverseEdge(speed, su, grade, gu, len, lu) ==
   /\ pok /\ pst' = Step(pst, speed, su, grade, gu, len, lu) /\ UNCHANGED <<veh, pok>>
(* best case used to order the search: ideal rate x distance (no adjustment) *)
BestCase(from, dist, du) ==
   LET e == SMul(veh.ideal, Convert("distance", du, veh.rateDU, dist))
   IN IF veh.type = "ice" THEN [from EXCEPT !.el = SAdd(@, e)]
      ELSE [from EXCEPT !.ee = SAdd(@, e), !.soc = SocAfter(@, e)]

(* the same steps as changes: [dee, del, dsoc (unclamped), soc (new absolute charge, clamped)] *)
Change(from, e, electric) == IF electric THEN [dee |-> e, del |-> SZero, dsoc |-> SNeg(SDiv(SMul(S100, e), veh.cap)), soc |-> SocAfter(from.soc, e)]
                             ELSE [dee |-> SZero, del |-> e, dsoc |-> SZero, soc |-> from.soc]
StepChange(from, speed, su, grade, gu, len, lu) ==
   IF veh.type = "ice" \/ (veh.type = "phev" /\ from.soc.s <= 0)
   THEN Change(from, EdgeEnergy(IF veh.type = "ice" THEN veh.a ELSE veh.a2, IF veh.type = "ice" THEN veh.b ELSE veh.b2,
                                IF veh.type = "ice" THEN veh.c ELSE veh.c2, IF veh.type = "ice" THEN veh.rateDU ELSE veh.rateDU2,
                                speed, su, grade, gu, len, lu), FALSE)
   ELSE Change(from, EdgeEnergy(veh.a, veh.b, veh.c, veh.rateDU, speed, su, grade, gu, len, lu), TRUE)
BestCaseChange(from, dist, du) == Change(from, SMul(veh.ideal, Convert("distance", du, veh.rateDU, dist)), veh.type # "ice")

SocInRange == pst.soc.s >= 0 /\ SLeq(pst.soc, S100)
=============================================================================
