CONSTANTS
  NDim = 2
  MaxX = 2
  MaxV = 1
  Multilinear = FALSE
INIT Init
NEXT Next
INVARIANTS T1 T2 T3 T4
CHECK_DEADLOCK FALSE
