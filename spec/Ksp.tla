--------------------------------- MODULE Ksp ---------------------------------
(***************************************************************************)
(* k-shortest-paths (ksp/single_via_paths_algorithm.rs, yens_algorithm.rs, *)
(* route_similarity_function.rs, ksp_termination_criteria.rs) on top of    *)
(* Search (scn, costs, states).  Two parts:                                *)
(*  - the contract of a result: RoutesOK(routes, k, sim);                  *)
(*  - the acceptance loop shared by both algorithms, with the underlying   *)
(*    searches abstracted to "some candidate route is proposed": a         *)
(*    candidate is accepted iff it is a loop-free route different from and *)
(*    not too similar to EVERY accepted route; the loop ends with k routes *)
(*    or when no candidate is left.                                        *)
(* A route is a sequence of entries [e, st, acc, trv] as in Search.        *)
(*  sim  [type |-> "accept_all" | "edge_id" | "distance", p |-> threshold  *)
(*        in tenths]                                                       *)
(***************************************************************************)
EXTENDS Search, Sci

EdgesOf(r) == [i \in DOMAIN r |-> r[i].e]
SetOfSeq(s) == {s[i] : i \in DOMAIN s}
(* cosine similarity of two edge sets with per-edge weight w: numer / (|a| |b|) >= p/10, without roots *)
Weight(sim, e) == IF sim.type = "distance" THEN ELen(e) ELSE 1
RECURSIVE SumSq(_, _)
SumSq(S, sim) == IF S = {} THEN 0 ELSE LET e == CHOOSE e \in S : TRUE IN Weight(sim, e) * Weight(sim, e) + SumSq(S \ {e}, sim)
TooSimilar(a, b, sim) ==
   IF sim.type = "accept_all" THEN FALSE
   ELSE LET A == SetOfSeq(EdgesOf(a))  B == SetOfSeq(EdgesOf(b))
            numer == SumSq(A \cap B, sim)  da == SumSq(A, sim)  db == SumSq(B, sim)
        IN SLeq(SMul(SInt(sim.p * sim.p), SMul(SInt(da), SInt(db))), SMul(SInt(100), SMul(SInt(numer), SInt(numer))))
(* a valid loop-free origin-destination route with correctly accumulated state *)
Visited(r) == <<scn.src>> \o [i \in DOMAIN r |-> Far(r[i].e)]
LoopFree(r) == \A i, j \in DOMAIN Visited(r) : i # j => Visited(r)[i] # Visited(r)[j]
SumsOK(r) == \A i \in DOMAIN r :
                LET prevSt == IF i = 1 THEN scn.init ELSE r[i - 1].st
                    prevE  == IF i = 1 THEN 0 ELSE r[i - 1].e
                IN r[i].st = NextSt(prevSt, prevE, r[i].e) /\ r[i].acc + r[i].trv = Total(prevSt, prevE, r[i].e)
ValidRoute(r) == r # <<>> /\ ChainOK(EdgesOf(r)) /\ LoopFree(r) /\ SumsOK(r)
RECURSIVE CostOf(_, _)
CostOf(r, i) == IF i > Len(r) THEN 0 ELSE r[i].acc + r[i].trv + CostOf(r, i + 1)

CountOK(routes, k) == Len(routes) >= 1 /\ Len(routes) <= k
FirstOptimal(routes) == (NoAccess /\ scn.bad = {}) => CostOf(routes[1], 1) = DistFrom(scn.src)[scn.dst]
AllValid(routes) == \A i \in DOMAIN routes : ValidRoute(routes[i])
Distinct(routes) == \A i, j \in DOMAIN routes : i # j => EdgesOf(routes[i]) # EdgesOf(routes[j])
Dissimilar(routes, sim) == \A i, j \in DOMAIN routes : i < j => ~TooSimilar(routes[i], routes[j], sim)
RoutesOK(routes, k, sim) == CountOK(routes, k) /\ FirstOptimal(routes) /\ AllValid(routes) /\ Distinct(routes) /\ Dissimilar(routes, sim)

(* the acceptance loop, with the termination criteria of ksp_termination_criteria.rs as coded:        *)
(*   exact        stop when exactly k routes are held                                                  *)
(*   max(n)       the same, but only if n >= k  (n < k: never stops before the candidates run out)    *)
(*   factor(n)    the same, but only if n * held >= k  (n = 0: never stops)                           *)
(* a criterion that never fires lets the loop collect more than k routes; the result is the first k.  *)
VARIABLES kq, accepted, remaining, kdone
kvars == <<kq, accepted, remaining, kdone>>
Acceptable(c, acc, sim) == /\ ValidRoute(c)
                           /\ \A i \in DOMAIN acc : EdgesOf(acc[i]) # EdgesOf(c) /\ ~TooSimilar(c, acc[i], sim)
KStart(k, sim, term, first, cands) == /\ kq' = [k |-> k, sim |-> sim, term |-> term] /\ accepted' = <<first>>
                                      /\ remaining' = cands /\ kdone' = FALSE
TermFires == /\ Len(accepted) = kq.k
             /\ \/ kq.term.type = "exact"
                \/ kq.term.type = "max" /\ kq.term.n >= kq.k
                \/ kq.term.type = "factor" /\ kq.term.n * Len(accepted) >= kq.k
Consider == /\ ~kdone /\ ~TermFires /\ remaining # {}
            /\ \E c \in remaining :
                  /\ remaining' = remaining \ {c}
                  /\ accepted' = IF Acceptable(c, accepted, kq.sim) THEN Append(accepted, c) ELSE accepted
            /\ UNCHANGED <<kq, kdone>>
KStop == /\ ~kdone /\ (TermFires \/ remaining = {}) /\ kdone' = TRUE /\ UNCHANGED <<kq, accepted, remaining>>
KResultOf(acc, k) == SubSeq(acc, 1, IF Len(acc) < k THEN Len(acc) ELSE k)      \* routes.take(k)
=============================================================================
