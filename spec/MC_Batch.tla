------------------------------ MODULE MC_Batch ------------------------------
EXTENDS Batch
CONSTANTS MaxQ, MaxPar, MaxItems, CfgSink, CfgKeep
Classes == {[cls |-> "ok", k |-> 1, w |-> 1], [cls |-> "ok", k |-> 1, w |-> 3], [cls |-> "serr", k |-> 1, w |-> 1],
            [cls |-> "perr", k |-> 1, w |-> 1], [cls |-> "ok", k |-> 2, w |-> 2]}
VARIABLE building
RECURSIVE NItems(_, _)
NItems(b, q) == IF q > Len(b) THEN 0 ELSE (IF b[q].cls = "perr" THEN 0 ELSE b[q].k) + NItems(b, q + 1)
Init == /\ batch = <<>> /\ par = 1 /\ processed = <<>> /\ errors = <<>> /\ bins = <<>> /\ stage = <<>> /\ pos = <<>>
        /\ lock = 0 /\ file = <<>> /\ counter = 0 /\ kept = <<>> /\ out = <<>> /\ phase = "idle" /\ errpos = 1 /\ cfg = [sink |-> CfgSink, keep |-> CfgKeep]
        /\ building = TRUE
AddQuery == /\ building /\ Len(batch) < MaxQ
            /\ \E c \in Classes : NItems(Append(batch, c), 1) <= MaxItems /\ batch' = Append(batch, c)
            /\ UNCHANGED <<par, processed, errors, bins, stage, pos, lock, file, counter, kept, out, phase, errpos, cfg, building>>
Go == /\ building /\ Len(batch) >= 1 /\ \E p \in 1..MaxPar : Submit(batch, p, cfg)
      /\ building' = FALSE
Next == AddQuery \/ Go \/ (~building /\ BatchNext /\ UNCHANGED building)
=============================================================================
