------------------------------- MODULE MC_Scc -------------------------------
EXTENDS Scc, Json
CONSTANTS NV, Loops
VARIABLE building
Init == /\ nv = NV /\ E = <<>> /\ visited = {} /\ stack = <<>> /\ comps = <<>> /\ phase = "idle" /\ root = 1
        /\ building = TRUE
KeyLT(a, b) == a[1] < b[1] \/ (a[1] = b[1] /\ a[2] < b[2])
AddEdge == /\ building
           /\ \E s \in 1..NV, d \in 1..NV :
                 /\ (Loops \/ s # d)
                 /\ IF E = <<>> THEN TRUE ELSE KeyLT(E[Len(E)], <<s, d>>)
                 /\ E' = Append(E, <<s, d>>)
           /\ UNCHANGED <<nv, visited, stack, comps, phase, root, building>>
Go == building /\ building' = FALSE /\ Begin(nv, E)
Next == AddEdge \/ Go \/ (~building /\ (Pass1 \/ Pass2 \/ Finish) /\ UNCHANGED building)
EmitScn == (phase = "p1" /\ root = 1 /\ ~building) => PrintT(<<"SCN", ToJson([nv |-> nv, E |-> E])>>)
=============================================================================
