CONSTANTS
  NK = 8
  MaxOps = 8
  Devs = {}
INIT Init
NEXT Next
INVARIANTS Refines SlotsDense
PROPERTIES OverwriteKeepsSlot
VIEW ViewNoHist
CHECK_DEADLOCK FALSE
