--------------------------- MODULE Trace_StateModel ---------------------------
(* Calls on the real StateModel: New / Extend (observers after), InitialState, Get / Set / Add by name.     *)
(* The harness logs, per call, the observers (length, names in iteration order, slot index per name from    *)
(* serialize_state_model, the vector) and for updates which slots changed bit-wise.                         *)
EXTENDS StateModel, TraceLib
VARIABLES l, codec
tvars == <<sm, vec, l, codec>>
Ev == Rec[l]
Chk(name, cond) == IF cond THEN TRUE ELSE PrintT(<<"FAILED", name, l>>) /\ FALSE
ObsOK(o, s) == /\ o.len = Len(s)
               /\ o.names = [i \in DOMAIN s |-> s[i].name]                                  \* iteration order = slot order
               /\ \A i \in DOMAIN s : o.index[i] = i - 1 /\ o.vecnames[i] = s[i].name         \* slots 0..n-1, none shared or skipped
               /\ o.contains
VecCloseTol(a, b, ppm) == Len(a) = Len(b) /\ \A i \in DOMAIN a : SCloseTo(a[i], b[i], SAdd(SAbs(b[i]), SInt(1)), ppm)
VecClose(a, b) == VecCloseTol(a, b, 300)
T_New == /\ Ev.ev = "SMNew" /\ New(Ev.feats) /\ Chk("C11 slots after new", ObsOK(Ev.obs, sm'))
T_Extend == /\ Ev.ev = "SMExtend" /\ Extend(Ev.feats)
            /\ Chk("C11 extend accepted iff no feature changes its type", Ev.ok = ~Conflict(sm, Ev.feats))
            /\ Ev.ok => Chk("C11 slots after extend", ObsOK(Ev.obs, sm'))
T_Init == /\ Ev.ev = "SMInit" /\ InitialState
          /\ Chk("C11 initial state has exactly n entries holding the declared initial values", VecClose(Ev.vec, vec'))
T_Get == /\ Ev.ev = "SMGet" /\ UNCHANGED <<sm, vec>>
         /\ Chk("C11 read by name", Ev.ok /\ SCloseTo(Ev.val, GetIn(Ev.name, Ev.unit), SAdd(SAbs(GetIn(Ev.name, Ev.unit)), SInt(1)), 1500))
(* the observed vector is adopted after each update (add_* converts the accumulated value there and back, so the
   code's 0.02 % factor mismatches would otherwise accumulate over a history) *)
T_Set == /\ Ev.ev = "SMSet" /\ UNCHANGED sm /\ vec' = Ev.vec
         /\ Chk("C11 update by name touches only its own slot", Ev.ok /\ \A i \in DOMAIN Ev.same : (i # IdxF(sm, Ev.name)) => Ev.same[i])
         /\ Chk("C11 updated value (through unit conversion)",
                VecCloseTol(Ev.vec, IF Ev.op = "set" THEN SetVal(Ev.name, Ev.unit, Ev.val) ELSE AddVal(Ev.name, Ev.unit, Ev.val), 1500))
         /\ Chk("C11 read back in the same unit", SCloseTo(Ev.back, GetOf(sm, Ev.vec, Ev.name, Ev.unit), SAdd(SAbs(Ev.back), SInt(1)), 1500))
(* application level: the state model of the search instance built for a query.  The models' features reach the state
   model through a hash map, so their relative order is not fixed: the slots must be a bijection onto the expected
   feature set (config < models < query), each with its declared unit and initial value. *)
T_App == /\ Ev.ev = "SMApp" /\ UNCHANGED <<sm, vec>>
         /\ Chk("C11 the instance is built", Ev.ok)
         /\ LET E == Ev.expect
                N == {E[i].name : i \in DOMAIN E}
                o == Ev.obs
            IN /\ Chk("C11 one slot per feature, slots 0..n-1, none shared or skipped",
                      /\ o.len = Len(E) /\ Len(o.names) = Len(E) /\ Cardinality(N) = Len(E)
                      /\ {o.names[i] : i \in DOMAIN o.names} = N
                      /\ \A i \in DOMAIN o.names : o.index[i] = i - 1 /\ o.vecnames[i] = o.names[i]
                      /\ o.contains /\ Len(Ev.vec) = Len(E))
               /\ Chk("C11 every feature has the unit and initial value declared for it (query over models over configuration)",
                      \A i \in DOMAIN o.names : \E j \in DOMAIN E :
                          /\ E[j].name = o.names[i] /\ Ev.units[i] = E[j].unit
                          /\ SCloseTo(Ev.vec[i], E[j].init, SAdd(SAbs(E[j].init), SInt(1)), 10))
TInit == l = 1 /\ sm = <<>> /\ vec = <<>> /\ codec = [s |-> 0, u |-> 0, b |-> 0, f4 |-> 0]
(* typed custom features (CustomFeatureFormat: signed / unsigned integer, boolean as 0/1, floating point in quarters): *)
(* `codec` is what each of the four typed slots holds; a typed read returns it exactly, a typed write replaces that    *)
(* slot only, accessors of another type refuse, the ordinary features next to them (distance 5, time 6) are untouched *)
ReadOK(rd, c) == /\ rd.s = c.s /\ rd.u = c.u /\ rd.b = c.b /\ rd.f4 = c.f4 /\ rd.refuse /\ rd.d = 5 /\ rd.t = 6
T_CodecInit == /\ Ev.ev = "SMCodecInit" /\ Ev.len = 6
               /\ codec' = [s |-> Ev.s, u |-> Ev.u, b |-> Ev.b, f4 |-> Ev.f4]
               /\ ReadOK(Ev.read, codec') /\ UNCHANGED <<sm, vec>>
T_CodecSet == /\ Ev.ev = "SMCodecSet" /\ Ev.ok /\ Ev.wrong_refused /\ Ev.len = 6
              /\ codec' = [codec EXCEPT ![Ev.which] = Ev.val]
              /\ ReadOK(Ev.read, codec') /\ UNCHANGED <<sm, vec>>
TNext == l <= Len(Rec) /\ l' = l + 1 /\ ((UNCHANGED codec /\ (T_New \/ T_Extend \/ T_Init \/ T_Get \/ T_Set \/ T_App)) \/ T_CodecInit \/ T_CodecSet)
TSpec == TInit /\ [][TNext]_tvars
Track == TrackPos(l)
NotStop == NotStopped(l)
TraceAccepted == Accepted
=============================================================================
