SPECIFICATION TSpec
CONSTRAINT Track
INVARIANTS NotStop
POSTCONDITION TraceAccepted
CHECK_DEADLOCK FALSE
