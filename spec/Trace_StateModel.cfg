SPECIFICATION TSpec
CONSTRAINT Track
INVARIANTS NotStop SlotsDense VecFits
POSTCONDITION TraceAccepted
CHECK_DEADLOCK FALSE
