---------------------------- MODULE MC_CostModel ----------------------------
EXTENDS CostModel, Json
CONSTANTS MaxF, Small
Ws == IF Small THEN {-1, 0, 1} ELSE {-1, 0, 1, 2}
Deltas == IF Small THEN {-1, 0, 2} ELSE {-2, -1, 0, 1, 2}
VARIABLES F, building
Rates == IF Small THEN {<<"raw">>, <<"factor", -1>>, <<"offset", 1>>}
         ELSE {<<"zero">>, <<"raw">>, <<"factor", 2>>, <<"factor", -1>>, <<"offset", 1>>, <<"offset", -1>>,
               <<"combined", <<<<"factor", 2>>, <<"offset", 1>>>>>>,
               <<"combined", <<<<"offset", 1>>, <<"combined", <<<<"factor", 2>>>>>>>>>>}
Nets == IF Small THEN {<<"zero">>, <<"turn", 5>>}
        ELSE {<<"zero">>, <<"edge", 3>>, <<"turn", 5>>, <<"combined", <<<<"edge", 3>>, <<"turn", 5>>, <<"edge_other", 9>>>>>>}
DAs == IF Small THEN {0} ELSE {0, 1}
Init == F = <<>> /\ building = TRUE /\ case = [agg |-> "sum", F |-> <<>>, prev |-> FALSE] /\ res = [charged |-> Floor, est |-> 0]
AddFeature == /\ building /\ Len(F) < MaxF
              /\ \E w \in Ws, r \in Rates, n \in Nets, da \in DAs, dt \in Deltas :
                    F' = Append(F, [w |-> w, rate |-> r, net |-> n, da |-> da, dt |-> dt])
              /\ UNCHANGED <<building, case, res>>
Go == /\ building /\ Len(F) >= 1 /\ SumOf([i \in DOMAIN F |-> F[i].w], 1) # 0
      /\ \E agg \in {"sum", "mul"}, prev \in BOOLEAN : Charge([agg |-> agg, F |-> F, prev |-> prev])
      /\ building' = FALSE /\ UNCHANGED F
Next == AddFeature \/ Go
EmitScn == ~building => PrintT(<<"SCN", ToJson(case)>>)
=============================================================================
