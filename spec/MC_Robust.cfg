CONSTANTS
  MaxB = 3
INIT Init
NEXT Next
INVARIANTS Served Live
CHECK_DEADLOCK FALSE
