CONSTANTS
  NDim = 2
  MaxX = 3
  MaxV = 1
  Multilinear = TRUE
INIT Init
NEXT Next
INVARIANTS T1 T2 T3 T4 T5
CHECK_DEADLOCK FALSE
