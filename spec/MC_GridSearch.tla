---------------------------- MODULE MC_GridSearch ----------------------------
EXTENDS GridSearch, Json
CONSTANTS MaxAxes, MaxLen
Keys == <<"k0", "k1", "k2", "k3", "k4", "k5">>

(* build phase: axes are appended one at a time; choice j of axis i is the scalar 10*i+j, or an object
   touching the axis' own key and the first key *)
Choice(i, j, kind) == IF kind = "s" THEN [t |-> "s", v |-> 10 * i + j]
                      ELSE [t |-> "o", v |-> (Keys[1] :> 100 * i + j) @@ (Keys[i + 1] :> 10 * i + j)]
VARIABLE building
mvars == <<axes, base, pos, outPos, outQ, phase, building>>
Init == /\ axes = <<>> /\ base = (Keys[1] :> 1) @@ ("other" :> 2) /\ pos = None /\ outPos = <<>> /\ outQ = <<>>
        /\ phase = "idle" /\ building = TRUE
AddAxis == /\ building /\ Len(axes) < MaxAxes
           /\ \E n \in 1..MaxLen, kind \in {"s", "o"} :
                 axes' = Append(axes, [key |-> Keys[Len(axes) + 2],
                                       ch |-> [j \in 1..n |-> Choice(Len(axes) + 1, j, kind)]])
           /\ UNCHANGED <<base, pos, outPos, outQ, phase, building>>
Go == /\ building /\ Len(axes) >= 1 /\ building' = FALSE /\ Start(base, axes)   \* C17 quantifies over m >= 1
Next == AddAxis \/ Go \/ (~building /\ (Emit \/ Finish) /\ UNCHANGED building)
(* export: one scenario per shape *)
EmitScn == (phase = "run" /\ outPos = <<>> /\ ~building) =>
              PrintT(<<"SCN", ToJson([base |-> base, axes |-> axes])>>)
=============================================================================
