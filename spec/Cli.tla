--------------------------------- MODULE Cli ---------------------------------
(***************************************************************************)
(* The command line runner (app/cli/run.rs: command_line_runner, run_json, *)
(* run_newline_json) on top of the batch pipeline of Batch.tla:            *)
(*   validate   CliArgs::validate: a chunk size needs the newline format   *)
(*              and must be positive                                       *)
(*   build      the application is built from the configuration file, the  *)
(*              query file is opened (either may fail: nothing is run)     *)
(*   dispatch   (no chunk size, newline format) is refused; (no chunk      *)
(*              size, document) -> run_json; (chunk size, newline format)  *)
(*              -> run_newline_json                                        *)
(*   document   the JSON document is an array of queries, one query        *)
(*              object, or an object with a "queries" array; anything else *)
(*              fails before anything is run                               *)
(*   chunks     the *lines* of the file are cut into consecutive chunks of *)
(*              the chunk size (unparsable lines count towards the size);  *)
(*              the parsable lines of a chunk are one CompassApp::run      *)
(*   run        CompassApp::run opens the response file in append mode     *)
(*              (WriteMode::Append: the initial contents - the CSV header  *)
(*              - are written only if the file does not exist yet), and    *)
(*              delivers one record per response (Batch.tla: FileOK) in    *)
(*              any order; the next chunk starts after the run returned    *)
(*   report     unparsable lines of the chunk are logged, never written    *)
(* A line is [kind |-> "q", k |-> responses it expands to] or              *)
(* [kind |-> "bad"]; a record of the response file is <<line, j>>, line 0  *)
(* standing for records that were in the file before this invocation.      *)
(***************************************************************************)
EXTENDS Integers, Sequences, FiniteSets, TLC

VARIABLES args,    \* [nd |-> newline delimited, has |-> a chunk size was given, n |-> its value,
                   \*  appok |-> the configuration builds, qok |-> the query file can be opened]
          qfile,   \* [shape |-> "lines" | "array" | "object" | "queries" | "queries_notarray" | "scalar" | "unparsable",
                   \*  lines |-> the lines (newline format) / the queries of the document]
          fmt,     \* "json" | "csv" | "none"   format of the configured response file
          disk,    \* [exists |-> BOOLEAN, headers |-> Nat, recs |-> sequence of records]
          disk0,   \* the file before the invocation (history)
          pc,      \* "validate" | "build" | "dispatch" | "document" | "chunks" | "open" | "write" | "done" | "failed"
          next,    \* first line of the next chunk
          chunk,   \* <<first, last>> line numbers of the chunk being run (<<1, 0>>: none)
          todo,    \* records the current run still has to deliver
          logged,  \* number of unparsable lines reported so far
          runs     \* number of CompassApp::run calls so far
cvars == <<args, qfile, fmt, disk, disk0, pc, next, chunk, todo, logged, runs>>

Lines == qfile.lines
Items(i) == IF Lines[i].kind = "q" THEN {<<i, j>> : j \in Lines[i].js} ELSE {}
ItemsOf(a, b) == UNION {Items(i) : i \in a..b}
Bad(a, b) == {i \in a..b : Lines[i].kind = "bad"}
MinOf(a, b) == IF a < b THEN a ELSE b

Fail == pc' = "failed" /\ UNCHANGED <<args, qfile, fmt, disk, disk0, next, chunk, todo, logged, runs>>
Goto(p) == pc' = p /\ UNCHANGED <<args, qfile, fmt, disk, disk0, next, chunk, todo, logged, runs>>

Validate == /\ pc = "validate"
            /\ IF args.has /\ (~args.nd \/ args.n < 1) THEN Fail ELSE Goto("build")
Build == /\ pc = "build"
         /\ IF args.appok /\ args.qok THEN Goto("dispatch") ELSE Fail
(* newline format without a chunk size: the code refuses it ("should have been caught during CLI validation" - it is *)
(* not), although run_newline_json is written to take the whole file as one chunk in that case.  Neither behaviour   *)
(* touches a listed property, so the specification allows both: refuse, or run the file as a single chunk.           *)
Dispatch == /\ pc = "dispatch"
            /\ IF ~args.has /\ args.nd THEN (Fail \/ Goto("chunks"))
               ELSE IF ~args.has THEN Goto("document")
               ELSE Goto("chunks")
ChunkSize == IF args.has THEN args.n ELSE Len(qfile.lines) + 1
(* run_json: the whole document is one run *)
Document == /\ pc = "document"
            /\ IF qfile.shape \in {"array", "object", "queries"}
               THEN /\ chunk' = <<1, Len(Lines)>> /\ todo' = ItemsOf(1, Len(Lines)) /\ next' = Len(Lines) + 1
                    /\ pc' = "open" /\ UNCHANGED <<args, qfile, fmt, disk, disk0, logged, runs>>
               ELSE Fail
(* run_newline_json: the next chunk of lines, or the end of the file *)
ReadChunk == /\ pc = "chunks"
             /\ IF next > Len(Lines)
                THEN Goto("done")
                ELSE LET last == MinOf(next + ChunkSize - 1, Len(Lines)) IN
                     /\ chunk' = <<next, last>> /\ todo' = ItemsOf(next, last) /\ next' = last + 1
                     /\ pc' = "open" /\ UNCHANGED <<args, qfile, fmt, disk, disk0, logged, runs>>
(* ResponseOutputPolicy::build at the start of CompassApp::run *)
OpenSink == /\ pc = "open"
            /\ disk' = IF fmt = "none" \/ disk.exists THEN disk
                       ELSE [exists |-> TRUE, headers |-> IF fmt = "csv" THEN 1 ELSE 0, recs |-> <<>>]
            /\ runs' = runs + 1
            /\ pc' = "write" /\ UNCHANGED <<args, qfile, fmt, disk0, next, chunk, todo, logged>>
(* one record per response of the run, in any order (the workers race for the file lock) *)
WriteRec(it) == /\ pc = "write" /\ it \in todo
                /\ disk' = IF fmt = "none" THEN disk ELSE [disk EXCEPT !.recs = Append(@, it)]
                /\ todo' = todo \ {it}
                /\ UNCHANGED <<args, qfile, fmt, disk0, pc, next, chunk, logged, runs>>
EndRun == /\ pc = "write" /\ todo = {}
          /\ logged' = logged + Cardinality(Bad(chunk[1], chunk[2]))
          /\ pc' = IF qfile.shape = "lines" THEN "chunks" ELSE "done"
          /\ UNCHANGED <<args, qfile, fmt, disk, disk0, next, chunk, todo, runs>>

CliStep == Validate \/ Build \/ Dispatch \/ Document \/ ReadChunk \/ OpenSink \/ EndRun
CliNext == CliStep \/ \E it \in todo : WriteRec(it)

----------------------------------------------------------------------------
NewRecs == SubSeq(disk.recs, Len(disk0.recs) + 1, Len(disk.recs))
ChunkOf(i) == IF args.has THEN (i - 1) \div args.n ELSE 0
(* C19: what was in the file stays, in place *)
AppendOnly == /\ Len(disk.recs) >= Len(disk0.recs)
              /\ SubSeq(disk.recs, 1, Len(disk0.recs)) = disk0.recs
              /\ (disk0.exists => disk.exists /\ disk.headers = disk0.headers)
(* C19: a single header, written by whoever created the file *)
HeaderOnce == disk.exists => disk.headers = (IF fmt = "csv" THEN 1 ELSE 0)
(* C19: no record twice, records of an earlier chunk before those of a later one *)
NoDuplicates == \A a, b \in DOMAIN NewRecs : a # b => NewRecs[a] # NewRecs[b]
ChunkOrder == \A a, b \in DOMAIN NewRecs : a < b => ChunkOf(NewRecs[a][1]) <= ChunkOf(NewRecs[b][1])
(* C06 / C19: at the end every response of every parsable line is in the file exactly once, nothing else *)
Complete == pc = "done" =>
              /\ fmt # "none" => {NewRecs[a] : a \in DOMAIN NewRecs} = ItemsOf(1, Len(Lines))
              /\ fmt = "none" => disk = disk0
              /\ logged = Cardinality(Bad(1, Len(Lines)))
              /\ runs = (IF qfile.shape = "lines" THEN (Len(Lines) + ChunkSize - 1) \div ChunkSize ELSE 1)
(* an invocation that is refused runs nothing and leaves the file alone *)
RefusedUntouched == pc = "failed" => disk = disk0 /\ runs = 0
(* the next chunk starts only after every record of the current one is delivered *)
OneRunAtATime == pc \in {"chunks", "done"} => todo = {}
(* termination: every step moves forward *)
Rank(p) == CASE p = "validate" -> 0 [] p = "build" -> 1 [] p = "dispatch" -> 2 [] p = "document" -> 3 [] p = "chunks" -> 3
             [] p = "open" -> 4 [] p = "write" -> 5 [] p = "done" -> 9 [] p = "failed" -> 9
Progress == [][<<pc, next, todo>>' = <<pc, next, todo>>      \* (the build phase of a model only extends the inputs)
               \/ next' > next
               \/ (next' = next /\ Rank(pc') > Rank(pc))
               \/ (next' = next /\ pc' = pc /\ Cardinality(todo') < Cardinality(todo))
               \/ (next' = next /\ pc = "write" /\ pc' \in {"chunks", "done"})]_cvars
=============================================================================
