------------------------------- MODULE MC_Cli -------------------------------
(* every invocation of the command line runner within the bounds: argument combinations (newline format or not, chunk *)
(* size absent / non-positive / 1..MaxChunk+1), configuration and query file present or not, every query file of at   *)
(* most MaxLines lines over {query with one response, query expanding to two, unparsable line}, every document shape, *)
(* response file absent or holding records of an earlier invocation, and every order in which a run delivers records  *)
EXTENDS Cli
CONSTANTS MaxLines, MaxChunk
VARIABLE building
LineKinds == {[kind |-> "q", js |-> {1}], [kind |-> "q", js |-> {1, 2}], [kind |-> "bad"]}
Shapes(nd) == IF nd THEN {"lines"} ELSE {"array", "object", "queries", "queries_notarray", "scalar", "unparsable"}
Init == /\ building = TRUE /\ pc = "validate" /\ next = 1 /\ chunk = <<1, 0>> /\ todo = {} /\ logged = 0 /\ runs = 0
        /\ args \in [nd : BOOLEAN, has : BOOLEAN, n : {0} \cup 1..(MaxChunk + 1), appok : BOOLEAN, qok : BOOLEAN]
        /\ (~args.has => args.n = 0)
        /\ fmt \in {"json", "csv", "none"}
        /\ qfile \in [shape : Shapes(args.nd), lines : {<<>>}]
        /\ disk \in {[exists |-> FALSE, headers |-> 0, recs |-> <<>>],
                     [exists |-> TRUE, headers |-> IF fmt = "csv" THEN 1 ELSE 0, recs |-> <<<<0, 1>>, <<0, 2>>>>]}
        /\ (fmt = "none" => ~disk.exists)
        /\ disk0 = disk
AddLine == /\ building /\ Len(qfile.lines) < MaxLines
           /\ (qfile.shape = "object" => Len(qfile.lines) < 1)
           /\ \E k \in LineKinds : /\ (qfile.shape # "lines" => k.kind = "q")      \* a document that parses holds queries only
                                   /\ qfile' = [qfile EXCEPT !.lines = Append(@, k)]
           /\ UNCHANGED <<args, fmt, disk, disk0, pc, next, chunk, todo, logged, runs, building>>
Go == /\ building /\ (qfile.shape = "object" => Len(qfile.lines) = 1) /\ building' = FALSE /\ UNCHANGED cvars
Next == AddLine \/ Go \/ (~building /\ CliNext /\ UNCHANGED building)
Spec == Init /\ [][Next]_<<cvars, building>> /\ WF_<<cvars, building>>(~building /\ CliNext /\ UNCHANGED building)
Terminates == <>(building \/ pc \in {"done", "failed"})
(* vacuity guards: the interesting ends are reachable *)
ReachDoneChunks == ~(pc = "done" /\ args.has /\ runs >= 2 /\ logged >= 1)
=============================================================================
