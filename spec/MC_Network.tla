----------------------------- MODULE MC_Network -----------------------------
EXTENDS Network
CONSTANTS NV, MaxRows, Star
VARIABLE building
Init == /\ erows = <<>> /\ vrows = <<>> /\ nv = NV /\ next = 1 /\ adj = <<>> /\ rev = <<>> /\ edges = <<>>
        /\ phase = "idle" /\ building = TRUE
AddRow == /\ building /\ Len(erows) < MaxRows
          /\ \E s \in 0..(NV - 1), d \in 0..(NV - 1) :
                /\ (Star => (s = 0 \/ d = 0))
                /\ erows' = Append(erows, <<Len(erows), s, d, 1 + Len(erows)>>)
          /\ UNCHANGED <<vrows, nv, next, adj, rev, edges, phase, building>>
Go == building /\ building' = FALSE /\ Begin(erows, vrows, NV)
Next == AddRow \/ Go \/ (~building /\ (LoadEdgeRow \/ FinishLoad) /\ UNCHANGED building)
=============================================================================
