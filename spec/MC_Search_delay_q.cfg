CONSTANTS
  NV = 3
  MaxE = 3
  Lens = {1, 2}
  Spds = {1}
  Heads = {0, 180}
  HVals = {0, 3000}
  Dirs = {"fwd"}
  TieVals = {FALSE, TRUE}
  MaxBad = 0
  Limits <- NoLimits
  Delays <- SomeDelay
  Weights <- TimeOnly
  Surs = {0}
  CUs <- BaseCU
  Rts <- NoRt
  NoDst = FALSE
  OkSubsets = FALSE
  NeedConsistent = FALSE
INIT Init
NEXT Next
INVARIANTS TreeEdgeOK TreeRooted TreeMono TreeAllowed AtDone IterBound SizeBound RtBound
CHECK_DEADLOCK FALSE
