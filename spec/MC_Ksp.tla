------------------------------- MODULE MC_Ksp -------------------------------
(* all multigraphs with <= NV vertices / <= MaxE edges (built in key order), every origin/destination, k in 1..3,
   every similarity setting; the candidates are ALL simple origin-destination paths, considered in any order *)
EXTENDS Ksp
CONSTANTS NV, MaxE, Lens, TermNs,
          Lean   \* TRUE: the non-default termination criteria are combined with accept-all and one threshold only
VARIABLE building
Empty == [nv |-> NV, E |-> <<>>, hd |-> <<>>, src |-> 1, dst |-> 2, dir |-> "fwd", wd |-> 1, wt |-> 0, rd |-> 1, rt |-> 1,
          sur |-> <<>>, acc |-> "none", delay |-> [i \in 1..8 |-> 0], ok |-> <<>>, bad |-> {}, h |-> [v \in 1..NV |-> 0],
          itl |-> -1, szl |-> -1, init |-> <<0, 0>>, ties |-> FALSE, cu |-> <<1000, 1, 1000, 1>>, rtf |-> 0, rtx |-> FALSE]
KeyLE(a, b) == a[1] < b[1] \/ (a[1] = b[1] /\ a[2] < b[2]) \/ (a[1] = b[1] /\ a[2] = b[2] /\ a[3] <= b[3])
Init == /\ scn = Empty /\ queue = <<>> /\ g = <<>> /\ tree = <<>> /\ cur = 0 /\ lastE = 0 /\ todo = {} /\ iters = 0
        /\ outcome = "run" /\ pc = "build" /\ reop = FALSE /\ exh = -1
        /\ kq = [k |-> 1, sim |-> [type |-> "accept_all", p |-> 0], term |-> [type |-> "exact", n |-> 0]] /\ accepted = <<>> /\ remaining = {} /\ kdone = FALSE
        /\ building = TRUE
Frozen == UNCHANGED <<queue, g, tree, cur, lastE, todo, iters, outcome, pc, reop, exh>>
AddEdge == /\ building /\ Len(scn.E) < MaxE
           /\ \E s \in 1..NV, d \in 1..NV, len \in Lens :
                 /\ IF scn.E = <<>> THEN TRUE ELSE KeyLE(scn.E[Len(scn.E)], <<s, d, len>>)
                 /\ scn' = [scn EXCEPT !.E = Append(@, <<s, d, len, 1>>), !.hd = Append(@, <<0, 0>>), !.sur = Append(@, 0), !.ok = Append(@, TRUE)]
           /\ Frozen /\ UNCHANGED <<kq, accepted, remaining, kdone, building>>
RECURSIVE PathsFrom(_, _)
PathsFrom(v, visited) == IF v = scn.dst THEN {<<>>}
                         ELSE UNION {{<<e>> \o p : p \in PathsFrom(Far(e), visited \cup {Far(e)})} : e \in {x \in Inc(v) : Far(x) \notin visited}}
RECURSIVE Entries(_, _, _, _)
Entries(es, i, prevSt, prevE) == IF i > Len(es) THEN <<>>
                                 ELSE <<[e |-> es[i], st |-> NextSt(prevSt, prevE, es[i]), acc |-> AccCost(prevSt, prevE, es[i]),
                                         trv |-> TrvCost(prevSt, prevE, es[i])]>> \o Entries(es, i + 1, NextSt(prevSt, prevE, es[i]), es[i])
AllRoutes == {Entries(p, 1, scn.init, 0) : p \in PathsFrom(scn.src, {scn.src})}
Sims == {[type |-> "accept_all", p |-> 0]} \cup {[type |-> t, p |-> p] : t \in {"edge_id", "distance"}, p \in {5, 9}}
Terms == {[type |-> "exact", n |-> 0]} \cup {[type |-> t, n |-> n] : t \in {"max", "factor"}, n \in TermNs}
Go == /\ building
      /\ \E src \in 1..NV, dst \in 1..NV, k \in 1..3, sim \in Sims, term \in Terms :
            /\ src # dst
            /\ (Lean /\ term.type # "exact") => /\ (sim.type = "accept_all" \/ (sim.type = "edge_id" /\ sim.p = 5))
                                                  /\ Len(scn.E) < MaxE
            /\ scn' = [scn EXCEPT !.src = src, !.dst = dst]
            /\ LET R == {Entries(p, 1, scn'.init, 0) : p \in PathsFrom(src, {src})}      \* evaluated on scn' below
               IN TRUE
            /\ kq' = [k |-> k, sim |-> sim, term |-> term] /\ accepted' = <<>> /\ remaining' = {} /\ kdone' = FALSE
      /\ building' = FALSE /\ Frozen
(* first step after Go: the shortest route is accepted, all others become candidates *)
Seed == /\ ~building /\ accepted = <<>> /\ ~kdone /\ AllRoutes # {}
        /\ \E first \in AllRoutes : /\ \A r \in AllRoutes : CostOf(first, 1) <= CostOf(r, 1)
                                    /\ KStart(kq.k, kq.sim, kq.term, first, AllRoutes \ {first})
        /\ UNCHANGED scn /\ Frozen /\ UNCHANGED building
Next == AddEdge \/ Go \/ Seed \/ (~building /\ accepted # <<>> /\ (Consider \/ KStop) /\ UNCHANGED <<scn, building>> /\ Frozen)
MinOf(a, b) == IF a < b THEN a ELSE b
Result == KResultOf(accepted, kq.k)
ContractHolds == (~building /\ accepted # <<>>) => RoutesOK(Result, kq.k, kq.sim)
AtEnd == kdone => /\ Len(Result) <= MinOf(kq.k, Cardinality(AllRoutes))
                  /\ (kq.sim.type = "accept_all" => Len(Result) = MinOf(kq.k, Cardinality(AllRoutes)))   \* rejects nothing for similarity
(* the held routes exceed k only under a criterion that cannot fire for this k *)
OverK == Len(accepted) > kq.k => \/ kq.term.type = "max" /\ kq.term.n < kq.k
                                 \/ kq.term.type = "factor" /\ kq.term.n * kq.k < kq.k
Terminates == [][(~building /\ accepted # <<>> /\ ~kdone) => (Cardinality(remaining') < Cardinality(remaining) \/ kdone')]_<<kvars, scn, building>>
=============================================================================
