----------------------------- MODULE Trace_Batch -----------------------------
(* Two kinds of recorded histories are explained with the actions of Batch:      *)
(*  (a) application runs observed at the stage boundaries: each query alone,     *)
(*      the load-balanced bins, the returned responses, the records of the file; *)
(*      the run is accepted if it is a terminal state of Batch for that batch    *)
(*      (OutOK, FileOK, BinsPartition) and every response equals what the query  *)
(*      returns alone;                                                           *)
(*  (b) the real sink hammered from many threads: every line of the file must be *)
(*      one atomic write (WWriteAtomic) of the next row of some thread.          *)
EXTENDS Batch, TraceLib, Integers
VARIABLES l, alone, obins, perrs
tvars == <<batch, par, processed, errors, bins, stage, pos, lock, file, counter, kept, out, phase, errpos, cfg, l, alone, obins, perrs>>
Ev == Rec[l]
Devs == TraceDevs
Chk(name, cond) == IF cond THEN TRUE ELSE PrintT(<<"FAILED", name, l>>) /\ FALSE
Unch == UNCHANGED <<batch, par, processed, errors, bins, stage, pos, lock, file, counter, kept, out, phase, errpos, cfg>>

IsPerr(items) == Len(items) = 1 /\ items[1].j = 0
T_Alone == /\ Ev.ev = "Alone" /\ phase \in {"idle", "done"}
           /\ Chk("a single query must not fail the call", Ev.ok)
           /\ Chk("at least one response per query", Len(Ev.items) >= 1)
           /\ Chk("request echoed", \A i \in DOMAIN Ev.items : Ev.items[i].echo /\ Ev.items[i].qid = Ev.qid)
           /\ alone' = (Ev.qid :> Ev.items) @@ alone
           /\ UNCHANGED <<obins, perrs>> /\ Unch
T_Balanced == /\ Ev.ev = "Balanced" /\ Chk("load balancing failed", Ev.ok)
              /\ obins' = Ev.bins /\ UNCHANGED <<alone, perrs>> /\ Unch

QIdx(qids, qid) == CHOOSE i \in DOMAIN qids : qids[i] = qid
BatchOf(qids) == [i \in DOMAIN qids |->
                    [cls |-> IF IsPerr(alone[qids[i]]) THEN "perr" ELSE "ok", k |-> Len(alone[qids[i]]), w |-> 1, qid |-> qids[i]]]
ItemOf(qids, it) == <<QIdx(qids, it.qid), it.j>>
RECURSIVE FlatSeq(_, _)
FlatSeq(ss, i) == IF i > Len(ss) THEN <<>> ELSE ss[i] \o FlatSeq(ss, i + 1)

T_RunStart == /\ Ev.ev = "RunStart" /\ phase \in {"idle", "done"}
              /\ \A i \in DOMAIN Ev.qids : Ev.qids[i] \in DOMAIN alone
              /\ phase' = "submitted" /\ batch' = BatchOf(Ev.qids) /\ par' = Ev.par
              /\ cfg' = [sink |-> Ev.sink, keep |-> Ev.keep]
              /\ processed' = Expand(BatchOf(Ev.qids), 1) /\ errors' = Errs(BatchOf(Ev.qids), 1)
              /\ bins' = IF obins = <<>> THEN [w \in 1..Ev.par |-> <<>>]
                          ELSE [w \in 1..Len(obins) |-> [i \in DOMAIN obins[w] |-> <<QIdx(Ev.qids, obins[w][i][1]), obins[w][i][2]>>]]
              /\ Chk("one bin per parallel batch, or none for an empty set", Len(obins) = Ev.par \/ processed' = <<>>)
              /\ file' = <<>> /\ out' = <<>> /\ counter' = 0 /\ lock' = 0 /\ errpos' = 1
              /\ stage' = <<>> /\ pos' = <<>> /\ kept' = <<>>
              /\ perrs' = Ev.qids
              /\ UNCHANGED <<alone, obins>>
SameAsAlone(it) == LET a == alone[it.qid] IN
                     IF it.j = 0 THEN IsPerr(a) /\ a[1].sum = it.sum
                     ELSE it.j \in DOMAIN a /\ a[it.j].j = it.j /\ a[it.j].sum = it.sum
T_Returned == /\ Ev.ev = "Returned" /\ phase = "submitted"
              /\ Chk("the batch call must return", Ev.ok)
              /\ Chk("request echoed", \A i \in DOMAIN Ev.items : Ev.items[i].echo /\ Ev.items[i].qid \in DOMAIN alone)
              /\ Chk("response equals the query's answer alone", \A i \in DOMAIN Ev.items : SameAsAlone(Ev.items[i]))
              /\ out' = [i \in DOMAIN Ev.items |-> ItemOf(perrs, Ev.items[i])]
              /\ UNCHANGED <<batch, par, processed, errors, bins, stage, pos, lock, file, counter, kept, phase, errpos, cfg, alone, obins, perrs>>
CsvRowOK(r) == LET a == alone[r.qid]
                   cand == {i \in DOMAIN a : /\ (a[i].sum[3] = r.dist) /\ (a[i].sum[4] = r.time)
                                             /\ r.tot = (IF a[i].sum[3] < 0 THEN -1 ELSE a[i].sum[3] + a[i].sum[4])}
               IN r.intact /\ r.ncells = r.ncols /\ cand # {}
T_File == /\ Ev.ev = "File" /\ phase = "submitted"
          /\ IF Ev.fmt = "json"
             THEN /\ Chk("every record parses back to a produced response", \A i \in DOMAIN Ev.recs : Ev.recs[i].intact /\ Ev.recs[i].echo)
                  /\ Chk("record equals the query's answer alone", \A i \in DOMAIN Ev.recs : SameAsAlone(Ev.recs[i]))
                  /\ file' = [i \in DOMAIN Ev.recs |-> [owner |-> 1, item |-> ItemOf(perrs, Ev.recs[i]), closed |-> TRUE]]
             ELSE IF Ev.fmt = "csv"
             THEN /\ Chk("single header", Ev.headers = 1 /\ (Ev.sorted => Ev.sorted_header))
                  /\ Chk("row cells follow the mapping in header order", \A i \in DOMAIN Ev.recs : Ev.recs[i].qid \in DOMAIN alone /\ CsvRowOK(Ev.recs[i]))
                  /\ file' = [i \in DOMAIN Ev.recs |-> [owner |-> 1, item |-> <<QIdx(perrs, Ev.recs[i].qid), 0>>, closed |-> TRUE]]
             ELSE file' = <<>>
          /\ counter' = Len(Ev.recs)
          /\ UNCHANGED <<batch, par, processed, errors, bins, stage, pos, lock, kept, out, phase, errpos, cfg, alone, obins, perrs>>
(* CSV rows do not identify the expansion: compare per query *)
PerQuery(s) == [i \in DOMAIN s |-> s[i][1]]
T_RunEnd == /\ Ev.ev = "RunEnd" /\ phase = "submitted" /\ phase' = "done"
            /\ UNCHANGED <<batch, par, processed, errors, bins, stage, pos, lock, file, counter, kept, out, errpos, cfg, alone, obins, perrs>>
(* evaluated on the state after RunEnd *)
RunOK == phase = "done" =>
           /\ Chk("C06 bins partition the processed queries", SameBag(Flat(bins, 1), processed))
           /\ Chk("C06 one response per query", IF Keep THEN SameBag(out, AllItems)
                                                 ELSE SameBag(out, [i \in 1..Len(errors) |-> <<errors[i], 0>>]))
           /\ (SinkOn => Chk("C19 one record per response",
                             IF \A i \in DOMAIN file : file[i].item[2] = 0 /\ processed # <<>>
                             THEN SameBag(PerQuery([i \in DOMAIN file |-> file[i].item]), PerQuery(AllItems))      \* csv
                             ELSE SameBag([i \in DOMAIN file |-> file[i].item], AllItems)))

(* (b) the sink driven directly: threads = bins; every line of the file is the whole locked section of
   write_response for the next row of some thread: WWriteAtomic(w) followed by WKeep(w) and WRun(w) *)
T_SinkStart == /\ Ev.ev = "SinkStart" /\ phase \in {"idle", "done"}
               /\ par' = Len(Ev.threads) /\ cfg' = [sink |-> TRUE, keep |-> FALSE]
               /\ bins' = [w \in DOMAIN Ev.threads |-> [i \in DOMAIN Ev.threads[w] |-> <<Ev.threads[w][i], 1>>]]
               /\ processed' = FlatSeq(bins', 1) /\ errors' = <<>> /\ batch' = <<>>
               /\ stage' = [w \in DOMAIN Ev.threads |-> "ran"] /\ pos' = [w \in DOMAIN Ev.threads |-> 1]
               /\ kept' = [w \in DOMAIN Ev.threads |-> <<>>] /\ lock' = 0 /\ file' = <<>> /\ counter' = 0 /\ out' = <<>>
               /\ errpos' = 1 /\ phase' = "run" /\ UNCHANGED <<alone, obins, perrs>>
T_FileLine == /\ Ev.ev = "FileLine" /\ phase = "run"
              /\ Chk("C19 record intact", Ev.intact)
              /\ \E w \in W : /\ pos[w] <= Len(bins[w]) /\ Item(w) = <<Ev.rid, 1>> /\ lock = 0
                              /\ file' = Append(file, [owner |-> w, item |-> Item(w), closed |-> TRUE])
                              /\ counter' = counter + 1
                              /\ pos' = [pos EXCEPT ![w] = @ + 1]
              /\ UNCHANGED <<batch, par, processed, errors, bins, stage, lock, kept, out, phase, errpos, cfg, alone, obins, perrs>>
T_Wrote == /\ Ev.ev = "Wrote" /\ phase = "run"
           /\ Chk("C19 response handed back keeps its information", Ev.untouched)
           /\ UNCHANGED <<alone, obins, perrs>> /\ Unch
T_SinkEnd == /\ Ev.ev = "SinkEnd" /\ phase = "run"
             /\ Chk("C19 every row written once", \A w \in W : pos[w] > Len(bins[w]))
             /\ Chk("C19 every write reported success", Ev.oks = Len(processed))
             /\ Chk("C19 single header", Ev.headers = (IF Ev.fmt = "csv" THEN 1 ELSE 0))
             /\ phase' = "done"
             /\ UNCHANGED <<batch, par, processed, errors, bins, stage, pos, lock, file, counter, kept, out, errpos, cfg, alone, obins, perrs>>
SinkOK == (phase = "done" /\ batch = <<>> /\ processed # <<>>) =>
             /\ SameBag([i \in DOMAIN file |-> file[i].item], processed) /\ counter = Len(processed)

TInit == /\ l = 1 /\ batch = <<>> /\ par = 1 /\ processed = <<>> /\ errors = <<>> /\ bins = <<>> /\ stage = <<>> /\ pos = <<>>
         /\ lock = 0 /\ file = <<>> /\ counter = 0 /\ kept = <<>> /\ out = <<>> /\ phase = "idle" /\ errpos = 1
         /\ cfg = [sink |-> FALSE, keep |-> TRUE] /\ alone = <<>> /\ obins = <<>> /\ perrs = <<>>
TNext == l <= Len(Rec) /\ l' = l + 1 /\
         (T_Alone \/ T_Balanced \/ T_RunStart \/ T_Returned \/ T_File \/ T_RunEnd \/ T_SinkStart \/ T_FileLine \/ T_Wrote \/ T_SinkEnd)
TSpec == TInit /\ [][TNext]_tvars
Track == TrackPos(l)
NotStop == NotStopped(l)
TraceAccepted == Accepted
=============================================================================
