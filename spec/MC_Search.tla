------------------------------ MODULE MC_Search ------------------------------
(* Exhaustive scenario construction for Search: a build phase adds edges in    *)
(* non-decreasing key order (every multigraph once, up to edge renaming - the  *)
(* search explores every order of incident edges anyway), Start then chooses   *)
(* the query, heuristic, restrictions, limits and cost configuration.          *)
EXTENDS Search, Json, IOUtils

CONSTANTS NV, MaxE, Lens, Spds, Heads, HVals, Dirs, TieVals, MaxBad, Limits, Delays, Weights, Surs, CUs, Rts,
          NoDst,      \* TRUE: also searches without a destination
          OkSubsets,  \* TRUE: every subset of forbidden edges; FALSE: all edges permitted
          NeedConsistent  \* TRUE: only heuristics that are consistent on the permitted edges

Empty == [nv |-> NV, E |-> <<>>, hd |-> <<>>, src |-> 1, dst |-> 0, dir |-> "fwd",
          wd |-> 1, wt |-> 0, rd |-> 1, rt |-> 1, sur |-> <<>>, acc |-> "none",
          delay |-> [i \in 1..8 |-> 0], ok |-> <<>>, bad |-> {}, h |-> [v \in 1..NV |-> 0],
          itl |-> -1, szl |-> -1, init |-> <<0, 0>>, ties |-> FALSE, cu |-> <<1000, 1, 1000, 1>>, rtf |-> 0, rtx |-> FALSE,
          od |-> 0, ot |-> 0]

(* named constant values (the cfg parser has no negative numbers / nested tuples) *)
NoLimits == {<<-1, -1>>}
IterLimits == {<<i, -1>> : i \in 0..4} \cup {<<-1, -1>>}
SizeLimits == {<<-1, i>> : i \in 0..3} \cup {<<-1, -1>>}
BothLimits == {<<i, j>> : i \in {-1, 1, 2}, j \in {-1, 0, 1}}
FewLimits == {<<-1, -1>>, <<2, -1>>, <<-1, 1>>}
NoDelay == {[i \in 1..8 |-> 0]}
SomeDelay == {[i \in 1..8 |-> 0], [i \in 1..8 |-> IF i = 1 THEN 0 ELSE IF i = 8 THEN 3 ELSE 1]}
DistOnly == {<<1, 0, 1, 1>>}
TimeOnly == {<<0, 1, 1, 1>>}
AllLimits == IterLimits \cup SizeLimits \cup BothLimits
NoRt == {<<0, FALSE>>}
SomeRt == {<<0, FALSE>>, <<1, TRUE>>, <<2, TRUE>>, <<1, FALSE>>, <<2, FALSE>>, <<3, FALSE>>}   \* <<frequency, zero budget>>
BaseCU == {<<1000, 1, 1000, 1>>}                       \* state features in metres and seconds
MixedCU == {<<1, 1, 50, 3>>, <<1000, 1, 5, 18>>, <<1, 1, 1000, 1>>}   \* km + minutes, m + hours, km + seconds
Blend == {<<1, 0, 1, 1>>, <<0, 1, 1, 1>>, <<1, 1, 1, 2>>, <<2, 1, 1, 1>>}
(* weights, rate factors and rate offsets <<wd, wt, rd, rt, od, ot>>: rates with a constant term, also after a zero factor *)
BlendOff == {<<1, 0, 1, 1, 2, 0>>, <<1, 1, 1, 2, 1, 3>>, <<2, 1, 0, 1, 1, 0>>, <<0, 1, 1, 1, 5, 1>>, <<1, 1, 2, 1, 0, 0>>}
OffD(w) == IF Len(w) >= 6 THEN w[5] ELSE 0
OffT(w) == IF Len(w) >= 6 THEN w[6] ELSE 0

KeyLE(a, b) == \/ a[1] < b[1]
               \/ a[1] = b[1] /\ a[2] < b[2]
               \/ a[1] = b[1] /\ a[2] = b[2] /\ a[3] < b[3]
               \/ a[1] = b[1] /\ a[2] = b[2] /\ a[3] = b[3] /\ a[4] <= b[4]

Init == /\ pc = "build" /\ scn = Empty
        /\ queue = <<>> /\ g = <<>> /\ tree = <<>> /\ cur = 0 /\ lastE = 0 /\ todo = {}
        /\ iters = 0 /\ outcome = "run" /\ reop = FALSE /\ exh = -1

AddEdge == /\ pc = "build" /\ Len(scn.E) < MaxE
           /\ \E s \in 1..NV, d \in 1..NV, len \in Lens, spd \in Spds, hdg \in Heads, su \in Surs :
                 /\ IF scn.E = <<>> THEN TRUE ELSE KeyLE(scn.E[Len(scn.E)], <<s, d, len, spd>>)
                 /\ scn' = [scn EXCEPT !.E = Append(@, <<s, d, len, spd>>),
                                       !.hd = Append(@, <<hdg, hdg>>),
                                       !.sur = Append(@, su),
                                       !.ok = Append(@, TRUE)]
           /\ UNCHANGED <<queue, g, tree, cur, lastE, todo, iters, outcome, pc, reop, exh>>

TurnPairs(s) == {p \in (DOMAIN s.E) \X (DOMAIN s.E) : s.E[p[1]][2] = s.E[p[2]][1]}
BadSets(s) == {b \in SUBSET TurnPairs(s) : Cardinality(b) <= MaxBad}
OkVecs(s) == IF OkSubsets THEN [DOMAIN s.E -> BOOLEAN] ELSE {[e \in DOMAIN s.E |-> TRUE]}

(* consistency of h on the permitted edges, without delays (delays only add cost) *)
ConsistentH(s) ==
   \A e \in DOMAIN s.E : s.ok[e] =>
      LET near == IF s.dir = "fwd" THEN s.E[e][1] ELSE s.E[e][2]
          far  == IF s.dir = "fwd" THEN s.E[e][2] ELSE s.E[e][1]
          tt   == IF s.E[e][4] = 0 THEN 0 ELSE s.E[e][3] \div s.E[e][4]
          raw  == (s.wd * s.rd * s.E[e][3] * s.cu[1]) \div s.cu[2] + (s.wt * s.rt * tt * s.cu[3]) \div s.cu[4]
                     + K * s.wd * s.sur[e] + K * (s.wd * s.od + s.wt * s.ot)
          c    == IF raw <= 0 THEN 0 ELSE raw
      IN s.h[near] <= c + s.h[far]

Start == /\ pc = "build"
         /\ \E src \in 1..NV, dst \in 0..NV, dir \in Dirs, ties \in TieVals, lim \in Limits,
               dl \in Delays, w \in Weights, cuv \in CUs, rt \in Rts :
              /\ dst # src /\ (dst = 0 => NoDst)
              /\ \E hh \in [1..NV -> HVals], okv \in OkVecs(scn), bad \in BadSets(scn) :
                   /\ (dst # 0 => hh[dst] = 0) /\ (dst = 0 => \A v \in 1..NV : hh[v] = 0)
                   /\ LET s == [scn EXCEPT !.src = src, !.dst = dst, !.dir = dir, !.ties = ties,
                                           !.itl = lim[1], !.szl = lim[2], !.h = hh, !.ok = okv, !.bad = bad,
                                           !.acc = IF \A i \in 1..8 : dl[i] = 0 THEN "none" ELSE "turn",
                                           !.delay = dl,
                                           !.wd = w[1], !.wt = w[2], !.rd = w[3], !.rt = w[4], !.od = OffD(w), !.ot = OffT(w), !.cu = cuv, !.rtf = rt[1], !.rtx = rt[2]]
                      IN /\ (NeedConsistent => ConsistentH(s))
                         /\ Setup(s)

Next == AddEdge \/ Start \/ SearchNext
NextGen == AddEdge \/ Start        \* scenario export only: build phase, then the first state of each search
Spec == Init /\ [][Next]_svars

(* termination measure: outside the relax phase every step shrinks the queue, lowers a label or ends *)
Searching == pc \in {"test", "pop", "relax"}
SumG == LET RECURSIVE S(_) S(D) == IF D = {} THEN 0 ELSE LET v == CHOOSE v \in D : TRUE IN g[v] + S(D \ {v})
        IN S(DOMAIN g)

(* scenario export for spec -> impl replay.  Every scenario of the bound is enumerated; the ones whose checksum falls  *)
(* into the residue class chosen by the environment (STRIDE, OFFSET) are printed - a deterministic sample that the    *)
(* seed of the check shifts.                                                                                         *)
RECURSIVE SumTo(_, _)
SumTo(f, n) == IF n = 0 THEN 0 ELSE f[n] + SumTo(f, n - 1)
Checksum(s) ==
   LET ne == Len(s.E)
       per == [e \in 1..ne |-> (e + 1) * (s.E[e][1] * 3 + s.E[e][2] * 5 + s.E[e][3] * 7 + s.E[e][4] * 11 + s.hd[e][1]
                                       + s.sur[e] * 13 + (IF s.ok[e] THEN 17 ELSE 0))]
       hv == [v \in 1..s.nv |-> (v + 40) * ((s.h[v] \div 1000) + (s.h[v] % 7))]
   IN SumTo(per, ne) + SumTo(hv, s.nv) + s.src * 19 + s.dst * 23 + (IF s.dir = "fwd" THEN 29 ELSE 0)
      + (s.itl + 2) * 31 + (s.szl + 2) * 37 + Cardinality(s.bad) * 43 + s.wd * 47 + s.wt * 53 + s.rd * 59 + s.rt * 61
      + s.cu[3] * 67 + s.od * 89 + s.ot * 97 + s.rtf * 71 + (IF s.rtx THEN 73 ELSE 0) + s.delay[8] * 79 + (IF s.ties THEN 83 ELSE 0)
Emit == (pc = "test" /\ iters = 0 /\ DOMAIN tree = {}) =>
           (((Checksum(scn) % atoi(IOEnv.STRIDE)) = atoi(IOEnv.OFFSET)) => PrintT(<<"SCN", ToJson(scn)>>))
=============================================================================
