CONSTANTS
  MaxEdges = 6
INIT Init
NEXT Next
INVARIANTS SocInRange
PROPERTIES Exclusive Unclamped
CHECK_DEADLOCK FALSE
