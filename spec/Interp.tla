-------------------------------- MODULE Interp --------------------------------
(***************************************************************************)
(* Linear interpolation on rectilinear grids (prediction/interpolation/    *)
(* utils.rs, interp.rs, interpolation_speed_grade_model.rs).               *)
(*   axes   sequence (one per dimension) of strictly increasing sequences  *)
(*          of integer grid coordinates                                    *)
(*   tab    function from index tuples (1-based, one index per dimension)  *)
(*          to integer values                                              *)
(*   p      query point (integers in the same coordinate units)            *)
(* Locate is the coded binary search; Blend is the multilinear blend as an *)
(* exact rational Num / Den.                                               *)
(***************************************************************************)
EXTENDS Naturals, Integers, Sequences, FiniteSets, TLC

Dim(axes) == Len(axes)
InGrid(axes, p) == \A d \in 1..Dim(axes) : axes[d][1] <= p[d] /\ p[d] <= axes[d][Len(axes[d])]

(* utils::find_nearest_index: the lower index (1-based here) of the cell used for x *)
RECURSIVE BSearch(_, _, _, _)
BSearch(a, x, low, high) == IF low >= high THEN low
                            ELSE LET mid == low + (high - low) \div 2
                                 IN IF a[mid] >= x THEN BSearch(a, x, low, mid) ELSE BSearch(a, x, mid + 1, high)
Locate(a, x) == IF x = a[Len(a)] THEN Len(a) - 1
                ELSE LET low == BSearch(a, x, 1, Len(a)) IN IF low > 1 /\ a[low] >= x THEN low - 1 ELSE low

(* all corner choices of the cell: functions dimension -> {0 (lower), 1 (upper)} *)
Corners(n) == [1..n -> {0, 1}]
CellOf(axes, p) == [d \in 1..Dim(axes) |-> Locate(axes[d], p[d])]
RECURSIVE ProdW(_, _, _, _, _), ProdD(_, _, _)
ProdW(axes, p, cell, c, d) ==   \* numerator weight of corner c: prod over dims of (x_u - p) or (p - x_l)
   IF d > Dim(axes) THEN 1
   ELSE (IF c[d] = 0 THEN axes[d][cell[d] + 1] - p[d] ELSE p[d] - axes[d][cell[d]]) * ProdW(axes, p, cell, c, d + 1)
ProdD(axes, cell, d) == IF d > Dim(axes) THEN 1 ELSE (axes[d][cell[d] + 1] - axes[d][cell[d]]) * ProdD(axes, cell, d + 1)
CornerIdx(cell, c) == [d \in DOMAIN cell |-> cell[d] + c[d]]
RECURSIVE BlendSum(_, _, _, _, _)
BlendSum(axes, tab, p, cell, S) ==
   IF S = {} THEN 0
   ELSE LET c == CHOOSE c \in S : TRUE
        IN tab[CornerIdx(cell, c)] * ProdW(axes, p, cell, c, 1) + BlendSum(axes, tab, p, cell, S \ {c})
BlendNum(axes, tab, p, cell) == BlendSum(axes, tab, p, cell, Corners(Dim(axes)))
BlendDen(axes, cell) == ProdD(axes, cell, 1)
CornerVals(axes, tab, cell) == {tab[CornerIdx(cell, c)] : c \in Corners(Dim(axes))}
Min(S) == CHOOSE x \in S : \A y \in S : x <= y
Max(S) == CHOOSE x \in S : \A y \in S : x >= y

(* every cell whose closed box contains p (more than one on a shared face) *)
MaxLen(axes) == LET L == {Len(axes[d]) : d \in 1..Dim(axes)} IN CHOOSE m \in L : \A y \in L : y <= m
CellsAt(axes, p) == {cell \in [1..Dim(axes) -> 1..MaxLen(axes)] :
                       \A d \in 1..Dim(axes) : cell[d] \in 1..(Len(axes[d]) - 1) /\ axes[d][cell[d]] <= p[d] /\ p[d] <= axes[d][cell[d] + 1]}

VARIABLES iq
ivars == <<iq>>
Ask(axes, tab, p) == iq' = [axes |-> axes, tab |-> tab, p |-> p]

(* theorems about the blend, evaluated on the asked point (iq.p inside the grid) *)
Den == BlendDen(iq.axes, CellOf(iq.axes, iq.p))
Num == BlendNum(iq.axes, iq.tab, iq.p, CellOf(iq.axes, iq.p))
LocatedCellContains == InGrid(iq.axes, iq.p) => CellOf(iq.axes, iq.p) \in CellsAt(iq.axes, iq.p)
WithinCorners == InGrid(iq.axes, iq.p) =>
                   LET cv == CornerVals(iq.axes, iq.tab, CellOf(iq.axes, iq.p))
                   IN Min(cv) * Den <= Num /\ Num <= Max(cv) * Den
GridPointExact == (InGrid(iq.axes, iq.p) /\ \A d \in 1..Dim(iq.axes) : \E i \in DOMAIN iq.axes[d] : iq.axes[d][i] = iq.p[d]) =>
                   LET idx == [d \in 1..Dim(iq.axes) |-> CHOOSE i \in DOMAIN iq.axes[d] : iq.axes[d][i] = iq.p[d]]
                   IN Num = iq.tab[idx] * Den
Continuous == InGrid(iq.axes, iq.p) =>      \* all cells sharing the point give the same value
                \A c1, c2 \in CellsAt(iq.axes, iq.p) :
                   BlendNum(iq.axes, iq.tab, iq.p, c1) * BlendDen(iq.axes, c2) = BlendNum(iq.axes, iq.tab, iq.p, c2) * BlendDen(iq.axes, c1)
=============================================================================
