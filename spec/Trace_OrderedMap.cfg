CONSTANTS
  NK = 12
  MaxOps = 0
  Devs <- TraceDevs
SPECIFICATION TSpec
CONSTRAINT Track
INVARIANT NotStop
POSTCONDITION TraceAccepted
CHECK_DEADLOCK FALSE
