CONSTANTS
  NV = 3
  MaxE = 3
  Lens = {1, 2}
  Spds = {1}
  Heads = {0}
  HVals = {0, 2000}
  Dirs = {"fwd", "rev"}
  TieVals = {FALSE}
  MaxBad = 2
  Limits <- NoLimits
  Delays <- NoDelay
  Weights <- DistOnly
  Surs = {0}
  CUs <- BaseCU
  Rts <- NoRt
  NoDst = TRUE
  OkSubsets = TRUE
  NeedConsistent = FALSE
INIT Init
NEXT Next
INVARIANTS TreeEdgeOK TreeRooted TreeMono TreeAllowed AtDone IterBound SizeBound RtBound
CHECK_DEADLOCK FALSE
