--------------------------------- MODULE Scc ---------------------------------
(***************************************************************************)
(* Strongly connected components (algorithm/component/scc.rs):             *)
(*  - the declarative meaning: classes of mutual reachability;             *)
(*  - the two-pass algorithm as coded (recursive depth-first search in     *)
(*    edge-id order recording finishing order; second pass on in-edges in  *)
(*    decreasing finishing order), one action per top-level call.          *)
(* graph: nv vertices 1..nv, E sequence of <<src, dst>> in edge-id order.  *)
(***************************************************************************)
EXTENDS Naturals, Sequences, FiniteSets, TLC

VARIABLES nv, E, visited, stack, comps, phase, root
sccvars == <<nv, E, visited, stack, comps, phase, root>>

V == 1..nv
(* --- declarative --- *)
Succ(S, rev) == {IF rev THEN E[i][1] ELSE E[i][2] : i \in {j \in DOMAIN E : (IF rev THEN E[j][2] ELSE E[j][1]) \in S}}
RECURSIVE Grow(_, _, _)
Grow(S, avoid, rev) == LET N == (S \cup Succ(S, rev)) \ avoid IN IF N = S THEN S ELSE Grow(TLCEval(N), avoid, rev)
Reach(v, avoid, rev) == IF v \in avoid THEN {} ELSE Grow({v}, avoid, rev)   \* reachable from v through vertices outside avoid
Class(v) == Reach(v, {}, FALSE) \cap Reach(v, {}, TRUE)
Partition == {Class(v) : v \in V}

(* --- as coded --- *)
RECURSIVE NbrSeq(_, _, _)
NbrSeq(v, rev, i) == IF i > Len(E) THEN <<>>
                     ELSE (IF (IF rev THEN E[i][2] ELSE E[i][1]) = v
                           THEN <<IF rev THEN E[i][1] ELSE E[i][2]>> ELSE <<>>) \o NbrSeq(v, rev, i + 1)
RECURSIVE Dfs(_, _, _, _), DfsSeq(_, _, _, _)
Dfs(v, vis, out, rev) == IF v \in vis THEN <<vis, out>>
                         ELSE LET r == DfsSeq(NbrSeq(v, rev, 1), vis \cup {v}, out, rev)
                              IN <<r[1], Append(r[2], v)>>
DfsSeq(ns, vis, out, rev) == IF ns = <<>> THEN <<vis, out>>
                             ELSE LET r == Dfs(Head(ns), vis, out, rev) IN DfsSeq(Tail(ns), r[1], r[2], rev)

Begin(n, es) == /\ phase = "idle" /\ nv' = n /\ E' = es /\ visited' = {} /\ stack' = <<>> /\ comps' = <<>>
                /\ root' = 1 /\ phase' = (IF n = 0 THEN "p2" ELSE "p1")
Pass1 == /\ phase = "p1"
         /\ LET r == Dfs(root, visited, stack, FALSE) IN
              /\ stack' = r[2]
              /\ IF root = nv THEN visited' = {} /\ phase' = "p2" ELSE visited' = r[1] /\ phase' = "p1"
         /\ root' = root + 1 /\ UNCHANGED <<nv, E, comps>>
Pass2 == /\ phase = "p2" /\ stack # <<>>
         /\ LET v == stack[Len(stack)] IN
              /\ stack' = SubSeq(stack, 1, Len(stack) - 1)
              /\ IF v \in visited THEN UNCHANGED <<visited, comps>>
                 ELSE LET r == Dfs(v, visited, <<>>, TRUE) IN visited' = r[1] /\ comps' = Append(comps, r[2])
         /\ UNCHANGED <<nv, E, phase, root>>
Finish == /\ phase = "p2" /\ stack = <<>> /\ phase' = "done" /\ UNCHANGED <<nv, E, visited, stack, comps, root>>

SetOf(s) == {s[i] : i \in DOMAIN s}
(* largest_strongly_connected_component: the first component of maximal length *)
Largest == IF comps = <<>> THEN <<>>
           ELSE comps[CHOOSE i \in DOMAIN comps : /\ \A j \in DOMAIN comps : Len(comps[j]) <= Len(comps[i])
                                                  /\ \A j \in 1..(i - 1) : Len(comps[j]) < Len(comps[i])]

(* contract of a component list *)
IsPartitionResult(cs) == /\ {SetOf(cs[i]) : i \in DOMAIN cs} = Partition
                         /\ \A i \in DOMAIN cs : Len(cs[i]) = Cardinality(SetOf(cs[i]))
                         /\ Len(cs) = Cardinality(Partition)
IsLargest(c, cs) == IF cs = <<>> THEN c = <<>>
                    ELSE /\ \E i \in DOMAIN cs : SetOf(cs[i]) = SetOf(c) /\ Len(c) = Len(cs[i])
                         /\ \A i \in DOMAIN cs : Len(cs[i]) <= Len(c)
ResultOK == phase = "done" => IsPartitionResult(comps) /\ IsLargest(Largest, comps)
(* during pass 2 every finished component is a class, and visited is exactly their union *)
Pass2Inv == phase = "p2" => /\ \A i \in DOMAIN comps : SetOf(comps[i]) \in Partition
                            /\ visited = UNION {SetOf(comps[i]) : i \in DOMAIN comps}
=============================================================================
