----------------------------- MODULE Trace_Interp -----------------------------
(* (a) Interp events: the real Interp1D/2D/3D/ND on integer grids; every result must be  *)
(*     the specification's exact blend Num/Den (2e-5), points outside must be rejected.  *)
(* (b) ISG events: the real InterpolationSpeedGradeModel over a bundled vehicle model;   *)
(*     the four surrounding grid values are queried from the underlying model and        *)
(*     logged; the prediction must lie between them, equal them at grid points, be       *)
(*     continuous across cell borders and equal the boundary value outside the grid.     *)
EXTENDS Interp, Sci, TraceLib
VARIABLE l
tvars == <<iq, l>>
Ev == Rec[l]
Chk(name, cond) == IF cond THEN TRUE ELSE PrintT(<<"FAILED", name, l>>) /\ FALSE
IsErr(r) == r.s = 9
RECURSIVE Nested(_, _, _)
Nested(t, i, d) == IF d > Len(i) THEN t ELSE Nested(t[i[d]], i, d + 1)
IdxOf(axes) == {f \in [1..Len(axes) -> 1..MaxLen(axes)] : \A d \in 1..Len(axes) : f[d] <= Len(axes[d])}
TabOf(ev) == [i \in IdxOf(ev.axes) |-> Nested(ev.tab, i, 1)]

T_Interp == /\ Ev.ev = "Interp" /\ Ask(Ev.axes, TabOf(Ev), Ev.p)
            /\ LET axes == Ev.axes  tab == TabOf(Ev)  p == Ev.p
               IN IF InGrid(axes, p)
                  THEN LET cell == CellOf(axes, p)
                           want == SDiv(SInt(BlendNum(axes, tab, p, cell)), SInt(BlendDen(axes, cell)))
                           cv == CornerVals(axes, tab, cell)
                           mag == SInt(IF Max(cv) > -Min(cv) THEN Max(cv) ELSE -Min(cv))      \* largest corner magnitude
                       IN /\ Chk("C14 specific interpolator = exact blend", ~IsErr(Ev.r) /\ SCloseTo(Ev.r, want, mag, 20))
                          /\ Chk("C14 N-d interpolator = exact blend", ~IsErr(Ev.rn) /\ SCloseTo(Ev.rn, want, mag, 20))
                  ELSE Chk("C14 point outside the grid rejected", IsErr(Ev.r) /\ IsErr(Ev.rn))
SMin4(c) == LET m(a, b) == IF SLeq(a, b) THEN a ELSE b IN m(m(c[1], c[2]), m(c[3], c[4]))
SMax4(c) == LET m(a, b) == IF SLeq(a, b) THEN b ELSE a IN m(m(c[1], c[2]), m(c[3], c[4]))
Slack(c) == SAdd(SMul(SAbs(SMax4(c)), Norm(1, 20, -6)), Norm(1, 1, -12))
(* closeness is judged at the scale of the values being blended: a prediction that nearly cancels to zero between corners of
   opposite sign carries the rounding of the corners, not of itself *)
Mag4(c) == LET a == SAbs(SMax4(c))  b == SAbs(SMin4(c)) IN IF SLeq(a, b) THEN b ELSE a
T_ISG == /\ Ev.ev = "ISG" /\ UNCHANGED iq
         /\ Chk("C14 prediction succeeded (outside = nearest boundary)", Ev.ok)
         /\ Chk("C14 between the surrounding grid values",
                /\ SLeq(SSub(SMin4(Ev.corners), Slack(Ev.corners)), Ev.y)
                /\ SLeq(Ev.y, SAdd(SMax4(Ev.corners), Slack(Ev.corners))))
         /\ Ev.on_grid => Chk("C14 grid point reproduces the underlying model", SCloseTo(Ev.y, Ev.corners[1], Mag4(Ev.corners), 20))
         /\ Chk("C14 outside = value at the nearest boundary", SCloseTo(Ev.y, Ev.y_clamped, Mag4(Ev.corners), 5))
         /\ Chk("C14 continuous across cell borders", SLeq(SAbs(SSub(Ev.y_plus, Ev.y_minus)), SAdd(SMul(Mag4(Ev.corners), Norm(1, 100, -6)), Norm(1, 1, -9))))
         /\ Chk("C14 same prediction in every input unit", SCloseTo(Ev.y_units, Ev.y, Mag4(Ev.corners), 200))
TInit == l = 1 /\ iq = [axes |-> <<>>, tab |-> <<>>, p |-> <<>>]
TNext == l <= Len(Rec) /\ l' = l + 1 /\ (T_Interp \/ T_ISG)
TSpec == TInit /\ [][TNext]_tvars
Track == TrackPos(l)
NotStop == NotStopped(l)
TraceAccepted == Accepted
=============================================================================
