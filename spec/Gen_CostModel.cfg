CONSTANTS
  MaxF = 2
  Small = TRUE
INIT Init
NEXT Next
INVARIANTS EmitScn
CHECK_DEADLOCK FALSE
