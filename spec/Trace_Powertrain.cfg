SPECIFICATION TSpec
CONSTRAINT Track
INVARIANTS NotStop SocInRange
POSTCONDITION TraceAccepted
CHECK_DEADLOCK FALSE
