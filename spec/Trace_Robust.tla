----------------------------- MODULE Trace_Robust -----------------------------
(* One Outcome event per batch run in a child process (memory and wall-clock     *)
(* limited): kind "returned" with the responses, or "panicked" / "aborted" /     *)
(* "timeout" / "batch_error".  Only "returned" outcomes of the right shape are   *)
(* steps of Robust.                                                              *)
EXTENDS Robust, TraceLib
VARIABLE l
tvars == <<rbatch, rphase, served, l>>
Ev == Rec[l]
Devs == TraceDevs
Chk(name, cond) == IF cond THEN TRUE ELSE PrintT(<<"FAILED", name, l>>) /\ FALSE

T_Submit == Ev.ev = "Submit" /\ RSubmit(Ev.batch)
KnownOutcome ==   \* open findings: a specific hostile class under a specific outcome kind
   \E i \in DOMAIN rbatch :
      \/ (Ev.kind = "panicked" /\ rbatch[i].tag = "empty_batch" /\ "F-C12-a" \in Devs /\ Known("C12", "F-C12-a"))
      \/ (Ev.kind = "timeout" /\ rbatch[i].tag = "grid_empty_object" /\ "F-C12-b" \in Devs /\ Known("C12", "F-C12-b"))
      \/ (Ev.kind = "panicked" /\ rbatch[i].tag = "grid_empty_array" /\ "F-C12-c" \in Devs /\ Known("C12", "F-C12-c"))
      \/ (Ev.kind = "panicked" /\ rbatch[i].tag = "non_object_inject" /\ "F-C12-d" \in Devs /\ Known("C12", "F-C12-d"))
      \/ (Ev.kind = "batch_error" /\ rbatch[i].tag = "weight_estimate_non_numeric" /\ "F-C06-a" \in Devs /\ Known("C12", "F-C06-a"))
T_Outcome == /\ Ev.ev = "Outcome"
             /\ IF Ev.kind = "returned"
                THEN /\ Chk("C12 one echoing response per query, errors for hostile queries", ShapeOK(rbatch, Ev.resp))
                     /\ RReturned(Ev.resp)
                ELSE /\ (IF KnownOutcome THEN TRUE ELSE Chk("C12 the call must return", FALSE))
                     /\ rphase' = "idle" /\ served' = <<>> /\ UNCHANGED rbatch
TInit == l = 1 /\ rbatch = <<>> /\ rphase = "idle" /\ served = <<>>
TNext == l <= Len(Rec) /\ l' = l + 1 /\ (T_Submit \/ T_Outcome)
TSpec == TInit /\ [][TNext]_tvars
Track == TrackPos(l)
NotStop == NotStopped(l)
TraceAccepted == Accepted
=============================================================================
