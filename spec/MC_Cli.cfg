CONSTANTS
  MaxLines = 3
  MaxChunk = 3
INIT Init
NEXT Next
INVARIANTS AppendOnly HeaderOnce NoDuplicates ChunkOrder Complete RefusedUntouched OneRunAtATime
PROPERTY Progress
CHECK_DEADLOCK FALSE
