CONSTANTS
  NV = 3
  MaxE = 3
  Lens = {1, 2}
  Spds = {1}
  Heads = {0}
  HVals = {0, 2000}
  Dirs = {"fwd"}
  TieVals = {FALSE}
  MaxBad = 0
  Limits <- FewLimits
  Delays <- NoDelay
  Weights <- DistOnly
  Surs = {0}
  CUs <- BaseCU
  Rts <- SomeRt
  NoDst = FALSE
  OkSubsets = FALSE
  NeedConsistent = FALSE
INIT Init
CHECK_DEADLOCK FALSE
NEXT NextGen
INVARIANTS Emit
