CONSTANTS
  N = 3
  MaxC = 3
INIT Init
NEXT Next
INVARIANTS MatchOK ErrorOK
CHECK_DEADLOCK FALSE
