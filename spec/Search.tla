------------------------------- MODULE Search -------------------------------
(***************************************************************************)
(* The search loop of routee-compass-core (run_a_star, advance_search,     *)
(* Direction, EdgeTraversal::{forward,reverse}_traversal, the frontier     *)
(* filter, TerminationModel::test, backtrack::vertex_oriented_route) with  *)
(* the cost model (weights x vehicle rates + per-edge network surcharge),  *)
(* the speed/distance traversal models, the turn-delay access model and    *)
(* the edge-local / turn frontier models folded in as operators.           *)
(*                                                                         *)
(* All quantities are integers.  Costs are in milli-units (K = 1000) so    *)
(* that the real-valued heuristic can be carried with three decimals.      *)
(*                                                                         *)
(* scn is the scenario (never changes during a search):                    *)
(*   nv      number of vertices (1..nv)                                    *)
(*   E       sequence of edges <<src, dst, len, spd>> (spd = 0: no time)   *)
(*   hd      sequence of <<start heading, end heading>> per edge           *)
(*   src,dst search origin, target (0 = none);  dir "fwd" | "rev"          *)
(*   wd,wt   weights of the distance / time features                       *)
(*   rd,rt   vehicle rate factors (0 = zero rate, 1 = raw, k = factor k)   *)
(*   sur     per-edge network surcharge (EdgeLookup on the distance        *)
(*           feature, multiplied by wd as the code does)                   *)
(*   acc     "none" | "turn";  delay: seconds per turn class (1..8)        *)
(*   ok      per-edge BOOLEAN: edge-local frontier verdict                 *)
(*   bad     set of <<e1, e2>> restricted turns                            *)
(*   h       per-vertex heuristic in milli-cost, already multiplied by the *)
(*           weight factor (all 0 for Dijkstra / no target)                *)
(*   itl,szl iteration / solution-size limits (-1 = none)                  *)
(*   rtf,rtx runtime limit: rtf = check frequency in iterations (0 = no    *)
(*           runtime limit), rtx = the budget is exhausted from the start  *)
(*           (a zero budget).  Otherwise the budget may run out at any     *)
(*           moment (time is not modelled): exh records the iteration      *)
(*           count of the first test at which it could be observed         *)
(*   init    <<distance, time>> initial state                              *)
(*   cu      <<nd, dd, nt, dt>>: the state is kept here in metres and      *)
(*           seconds whatever unit the state features are declared in; one *)
(*           metre of distance change is nd/dd milli-cost at weight and    *)
(*           rate 1 (1000/1 for a feature in metres, 1/1 in kilometres),   *)
(*           one second of time change nt/dt (1000/1 seconds, 50/3         *)
(*           minutes, 5/18 hours, 1000000/1 milliseconds): costs are       *)
(*           charged on the change of the feature in ITS OWN unit          *)
(*   ties    TRUE: on an exact tie of tentative and existing label either  *)
(*           outcome of the comparison is possible (the code compares      *)
(*           floating-point sums that differ in the last bits)             *)
(***************************************************************************)
EXTENDS Naturals, Integers, Sequences, FiniteSets, TLC

VARIABLES scn, queue, g, tree, cur, lastE, todo, iters, outcome, pc,
          reop,  \* history: some expanded vertex has been re-labelled (re-opened)
          exh    \* -1: time budget not (known to be) exhausted; n >= 0: exhausted, observable from the test with iters = n

svars == <<scn, queue, g, tree, cur, lastE, todo, iters, outcome, pc, reop, exh>>

K == 1000
Inf == 2000000000
Edges == DOMAIN scn.E
Verts == 1..scn.nv
ESrc(e) == scn.E[e][1]
EDst(e) == scn.E[e][2]
ELen(e) == scn.E[e][3]
ESpd(e) == scn.E[e][4]
ETime(e) == IF ESpd(e) = 0 THEN 0 ELSE ELen(e) \div ESpd(e)
Fwd == scn.dir = "fwd"
Near(e) == IF Fwd THEN ESrc(e) ELSE EDst(e)        \* Direction::terminal_vertex_id
Far(e)  == IF Fwd THEN EDst(e) ELSE ESrc(e)        \* Direction::tree_key_vertex_id
Inc(v)  == {e \in Edges : Near(e) = v}             \* Direction::get_incident_edges
G(v)    == IF v \in DOMAIN g THEN g[v] ELSE Inf
St(v)   == IF v = scn.src THEN scn.init ELSE tree[v].st

(* turn classification: EdgeHeading::bearing_to_destination + Turn::from_angle *)
Wrap(a) == IF a > 180 THEN a - 360 ELSE IF a < -180 THEN a + 360 ELSE a
TurnClass(a) == IF a <= -160 THEN 8         \* u_turn
                ELSE IF a <= -135 THEN 7    \* sharp_left
                ELSE IF a <= -45 THEN 5     \* left
                ELSE IF a <= -20 THEN 3     \* slight_left
                ELSE IF a <= 19 THEN 1      \* no_turn
                ELSE IF a <= 44 THEN 2      \* slight_right
                ELSE IF a <= 134 THEN 4     \* right
                ELSE IF a <= 159 THEN 6     \* sharp_right
                ELSE 8
(* travel-order pair (first, second) of a traversal of e at a vertex reached by edge p *)
First(p, e)  == IF Fwd THEN p ELSE e
Second(p, e) == IF Fwd THEN e ELSE p
TurnOf(a, b) == TurnClass(Wrap(scn.hd[b][1] - scn.hd[a][2]))   \* from the end of a to the start of b
Delay(p, e) == IF p = 0 \/ scn.acc = "none" THEN 0 ELSE scn.delay[TurnOf(First(p, e), Second(p, e))]

(* frontier: edge-local verdict and the turn restriction *as the code evaluates it*: (last, e) *)
Valid(e, p) == scn.ok[e] /\ (p = 0 \/ <<p, e>> \notin scn.bad)

(* EdgeTraversal: access first, then traversal *)
AccSt(st, p, e)  == <<st[1], st[2] + Delay(p, e)>>
NextSt(st, p, e) == <<st[1] + ELen(e), st[2] + Delay(p, e) + ETime(e)>>

(* CostModel (sum aggregation): weights x vehicle rate x delta + weighted network surcharge, floored *)
Pos(x) == IF x <= 0 THEN 0 ELSE x                         \* MIN_COST = 1e-10 is 0 in milli-units
(* a vehicle rate is factor * change + offset, in the feature's own unit (od, ot: offsets; absent = 0); the offset is  *)
(* charged once per rated change - once on the access part when there is a previous edge, once on the whole edge      *)
Od == IF "od" \in DOMAIN scn THEN scn.od ELSE 0
Ot == IF "ot" \in DOMAIN scn THEN scn.ot ELSE 0
Veh(a, b) == (scn.wd * scn.rd * (b[1] - a[1]) * scn.cu[1]) \div scn.cu[2]       \* in milli-cost
             + (scn.wt * scn.rt * (b[2] - a[2]) * scn.cu[3]) \div scn.cu[4]
             + K * (scn.wd * Od + scn.wt * Ot)
Total(st, p, e) == Pos(Veh(st, NextSt(st, p, e)) + K * scn.wd * scn.sur[e])
AccCost(st, p, e) == IF p = 0 THEN 0 ELSE Pos(Veh(st, AccSt(st, p, e)))
TrvCost(st, p, e) == Total(st, p, e) - AccCost(st, p, e)

H(v) == IF scn.dst = 0 THEN 0 ELSE scn.h[v]

----------------------------------------------------------------------------
(* the loop *)
RtOn == scn.rtf > 0
Sched == RtOn /\ iters % scn.rtf = 0                  \* the runtime is only looked at every rtf-th iteration
LimitFiresWith(ex) == \/ (scn.itl >= 0 /\ iters + 1 > scn.itl)
                      \/ (scn.szl >= 0 /\ Cardinality(DOMAIN tree) > scn.szl)
                      \/ (Sched /\ ex >= 0)
LimitFires == LimitFiresWith(exh)

Setup(s) == /\ scn' = s
            /\ queue' = (s.src :> (IF s.dst = 0 THEN 0 ELSE s.h[s.src]))
            /\ g' = (s.src :> 0)
            /\ tree' = <<>>
            /\ cur' = 0 /\ lastE' = 0 /\ todo' = {} /\ iters' = 0
            /\ outcome' = "run" /\ pc' = "test" /\ reop' = FALSE
            /\ exh' = IF s.rtf > 0 /\ s.rtx THEN 0 ELSE -1

TermTest == /\ pc = "test"
            /\ \E ex \in (IF RtOn /\ exh = -1 THEN {-1, iters} ELSE {exh}) :     \* the budget may have run out by now
                 /\ exh' = ex
                 /\ IF LimitFiresWith(ex) THEN outcome' = "terminated" /\ pc' = "done"
                                          ELSE outcome' = outcome /\ pc' = "pop"
            /\ UNCHANGED <<scn, queue, g, tree, cur, lastE, todo, iters, reop>>

Pop == /\ pc = "pop"
       /\ IF DOMAIN queue = {}
          THEN /\ outcome' = (IF scn.dst = 0 THEN "ok" ELSE "nopath") /\ pc' = "done"
               /\ UNCHANGED <<queue, cur, lastE, todo>>
          ELSE \E v \in DOMAIN queue :
                 /\ \A u \in DOMAIN queue : queue[u] >= queue[v]
                 /\ queue' = [u \in DOMAIN queue \ {v} |-> queue[u]]
                 /\ IF v = scn.dst
                    THEN outcome' = "ok" /\ pc' = "done" /\ UNCHANGED <<cur, lastE, todo>>
                    ELSE /\ cur' = v /\ todo' = Inc(v) /\ pc' = "relax" /\ outcome' = outcome
                         /\ lastE' = IF v = scn.src THEN 0 ELSE tree[v].e
       /\ UNCHANGED <<scn, g, tree, iters, reop, exh>>

Relax(e, imp) ==
   /\ pc = "relax" /\ e \in todo /\ todo' = todo \ {e}
   /\ IF ~Valid(e, lastE) THEN imp = FALSE /\ UNCHANGED <<g, tree, queue, reop>>
      ELSE LET st == St(cur)
               t  == G(cur) + Total(st, lastE, e)
               k  == Far(e)
           IN /\ (t < G(k) => imp) /\ (t > G(k) => ~imp) /\ (t = G(k) /\ ~scn.ties => ~imp)
              /\ IF imp
                 THEN /\ g' = (k :> t) @@ g
                      /\ tree' = (k :> [p |-> cur, e |-> e, st |-> NextSt(st, lastE, e),
                                        acc |-> AccCost(st, lastE, e), trv |-> TrvCost(st, lastE, e)]) @@ tree
                      /\ LET f == t + H(k)
                         IN queue' = IF k \in DOMAIN queue /\ queue[k] <= f THEN queue
                                     ELSE (k :> f) @@ queue                       \* push_increase
                      /\ reop' = (reop \/ (k \in DOMAIN g /\ k \notin DOMAIN queue))
                 ELSE UNCHANGED <<g, tree, queue, reop>>
   /\ UNCHANGED <<scn, cur, lastE, iters, outcome, pc, exh>>

EndExpand == /\ pc = "relax" /\ todo = {}
             /\ iters' = iters + 1 /\ pc' = "test"
             /\ UNCHANGED <<scn, queue, g, tree, cur, lastE, todo, outcome, reop, exh>>

SearchNext == TermTest \/ Pop \/ EndExpand \/ (\E e \in todo, imp \in BOOLEAN : Relax(e, imp))

----------------------------------------------------------------------------
(* backtrack::vertex_oriented_route: edges from the target back to the source, then reversed *)
RECURSIVE WalkFrom(_, _, _)
WalkFrom(tr, v, fuel) ==   \* sequence of tree keys from the search origin's child down to v; <<0>> marks failure
   IF v = scn.src THEN <<>>
   ELSE IF fuel = 0 \/ v \notin DOMAIN tr THEN <<0>>
   ELSE LET up == WalkFrom(tr, tr[v].p, fuel - 1) IN IF up = <<0>> THEN <<0>> ELSE Append(up, v)
Walk(tr, v) == WalkFrom(tr, v, scn.nv + 1)
RouteEdges(tr, v) == LET w == Walk(tr, v) IN [i \in 1..Len(w) |-> tr[w[i]].e]

(* C01 *)
TreeEdgeOK == \A v \in DOMAIN tree : Far(tree[v].e) = v /\ Near(tree[v].e) = tree[v].p
TreeRooted == \A v \in DOMAIN tree : Walk(tree, v) # <<0>>
TreeMono   == \A v \in DOMAIN tree : v \in DOMAIN g /\ G(tree[v].p) <= g[v] /\ v # scn.src
ChainOK(r) == /\ r # <<>> => Near(r[1]) = scn.src /\ Far(r[Len(r)]) = scn.dst
              /\ \A i \in 1..(Len(r) - 1) : Far(r[i]) = Near(r[i + 1])
              /\ \A i, j \in 1..Len(r) : i # j => r[i] # r[j]
RouteOK == LET w == Walk(tree, scn.dst) IN w # <<0>> /\ w # <<>> /\ ChainOK(RouteEdges(tree, scn.dst))

(* C04 *)
TreeAllowed == \A v \in DOMAIN tree : scn.ok[tree[v].e]
RouteTurnsOK == LET r == RouteEdges(tree, scn.dst) IN
                  \A i \in 1..(Len(r) - 1) : <<First(r[i], r[i + 1]), Second(r[i], r[i + 1])>> \notin scn.bad

(* C03: every route entry's state is the previous entry's state plus this edge (with the delay of the turn taken) *)
RouteSumsOK == LET w == Walk(tree, scn.dst) IN
   \A i \in 1..Len(w) :
      LET prevSt == IF i = 1 THEN scn.init ELSE tree[w[i - 1]].st
          prevE  == IF i = 1 THEN 0 ELSE tree[w[i - 1]].e
          b == tree[w[i]]
      IN /\ b.st = NextSt(prevSt, prevE, b.e)
         /\ b.acc + b.trv = Total(prevSt, prevE, b.e)
         /\ b.st[1] >= prevSt[1] /\ b.st[2] >= prevSt[2]
RouteCost == LET w == Walk(tree, scn.dst) IN g[scn.dst]

(* oracles: reachability and least cost over permitted edges (Bellman-Ford rounds, search direction) *)
EdgeCost(e) == Total(scn.init, 0, e)      \* independent of the previous edge when there is no access model
RECURSIVE BF(_, _, _)
BF(d, rounds, rev) ==
   IF rounds = 0 THEN d
   ELSE BF(TLCEval([v \in Verts |->
              LET into == {e \in Edges : scn.ok[e] /\ (IF rev THEN Near(e) ELSE Far(e)) = v
                                           /\ d[IF rev THEN Far(e) ELSE Near(e)] < Inf}
                  cands == {d[IF rev THEN Far(e) ELSE Near(e)] + EdgeCost(e) : e \in into} \cup {d[v]}
              IN CHOOSE x \in cands : \A y \in cands : x <= y]), rounds - 1, rev)
DistFrom(s) == BF([v \in Verts |-> IF v = s THEN 0 ELSE Inf], scn.nv, FALSE)   \* least cost s ~> v
DistTo(t)   == BF([v \in Verts |-> IF v = t THEN 0 ELSE Inf], scn.nv, TRUE)    \* least cost v ~> t
Admissible == LET dt == DistTo(scn.dst) IN \A v \in Verts : dt[v] < Inf => scn.h[v] <= dt[v]
NoAccess == scn.acc = "none" \/ \A i \in 1..8 : scn.delay[i] = 0

(* terminal oracles, one per property *)
Done == pc = "done"
DoneOK == Done /\ outcome = "ok"
DoneC01 == (DoneOK /\ scn.dst # 0) => RouteOK
DoneC02 == (DoneOK /\ scn.dst # 0 /\ NoAccess /\ scn.bad = {} /\ Admissible) =>
              g[scn.dst] = DistFrom(scn.src)[scn.dst]
DoneC05 == Done =>
     /\ outcome \in {"ok", "nopath", "terminated"}
     /\ (outcome # "terminated" /\ scn.dst # 0 /\ scn.bad = {}) =>
            ((outcome = "ok") <=> DistFrom(scn.src)[scn.dst] < Inf)
     /\ (outcome = "ok" /\ scn.dst = 0 /\ scn.bad = {}) =>
            LET d == DistFrom(scn.src) IN
              /\ DOMAIN tree = {v \in Verts : d[v] < Inf} \ {scn.src}
              /\ NoAccess => \A v \in DOMAIN tree : g[v] = d[v]
DoneC10 == (Done /\ outcome = "terminated") => LimitFires

(* A re-opened vertex (possible only under an inconsistent heuristic: weight factor > 1 or a non-metric  *)
(* network) is not propagated to the children it already has.  Model checking shows that the route       *)
(* still accumulates correctly when costs do not depend on the previous edge, but a restricted turn or a  *)
(* turn delay can then leave a stale entry on the returned route (DESIGN.md, F-C04-b / F-C03-a).         *)
(* A reverse search hands the frontier model the pair (last, e), which is the travel order reversed      *)
(* (F-C04-a), so the turn oracle is required of forward searches only.                                   *)
SumsRequired  == ~reop \/ (scn.bad = {} /\ NoAccess)
TurnsRequired == ~reop /\ Fwd
DoneC03 == (DoneOK /\ scn.dst # 0 /\ SumsRequired) => RouteSumsOK
DoneC04 == (DoneOK /\ scn.dst # 0 /\ TurnsRequired) => RouteTurnsOK
RouteTurnsAsCoded == LET r == RouteEdges(tree, scn.dst) IN
                        \A i \in 1..(Len(r) - 1) : <<r[i], r[i + 1]>> \notin scn.bad
AtDone == DoneC01 /\ DoneC02 /\ DoneC03 /\ DoneC04 /\ DoneC05 /\ DoneC10

(* C10 *)
(* with an exhausted budget the search stops at the next scheduled check: it never gets past the first multiple of rtf
   at or after the test from which the exhaustion was observable *)
(* the time budget as configured: "H:MM:SS" (hours of any length, two-digit minutes and seconds) is H hours, MM minutes *)
(* and SS seconds, whatever the size of the fields                                                                   *)
BudgetSeconds(h, m, s) == h * 3600 + m * 60 + s
RtBound == (RtOn /\ exh >= 0) => iters <= ((exh + scn.rtf - 1) \div scn.rtf) * scn.rtf
IterBound == scn.itl >= 0 => iters <= scn.itl
SizeBound == scn.szl >= 0 =>
                Cardinality(DOMAIN tree) <= scn.szl + (IF cur = 0 THEN 0 ELSE Cardinality(Inc(cur)))
=============================================================================
