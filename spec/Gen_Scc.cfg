CONSTANTS
  NV = 4
  Loops = TRUE
INIT Init
NEXT Next
INVARIANTS EmitScn
CHECK_DEADLOCK FALSE
