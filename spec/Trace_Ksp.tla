------------------------------ MODULE Trace_Ksp ------------------------------
(* One KSetup + KResult pair per real k-shortest-paths query (single-via in     *)
(* process; Yen's in a child process with a time limit).  The returned routes   *)
(* (per-edge state and costs) are judged by the contract of Ksp on the          *)
(* scenario's own network.                                                      *)
EXTENDS Ksp, SearchScn, TraceLib
VARIABLE l
tvars == <<scn, queue, g, tree, cur, lastE, todo, iters, outcome, pc, reop, exh, kq, accepted, remaining, kdone, l>>
Ev == Rec[l]
Devs == TraceDevs
Chk(name, cond) == IF cond THEN TRUE ELSE PrintT(<<"FAILED", name, l>>) /\ FALSE
Frozen == UNCHANGED <<queue, g, tree, cur, lastE, todo, iters, outcome, pc, reop, exh>>

T_KSetup == /\ Ev.ev = "Setup" /\ scn' = ScnOf(Ev)
            /\ kq' = [k |-> Ev.k, sim |-> Ev.sim, alg |-> Ev.kalg, term |-> Ev.term] /\ accepted' = <<>> /\ remaining' = {} /\ kdone' = FALSE
            /\ Frozen
Reachable == DistFrom(scn.src)[scn.dst] < Inf
RouteOfEv(r) == [i \in DOMAIN r |-> [e |-> r[i].e, st |-> r[i].st, acc |-> r[i].acc, trv |-> r[i].trv]]
(* edge-oriented queries: every returned route is the origin edge (zero cost, initial state), a route of the inner search
   (scn.src -> scn.dst) and the destination edge (zero cost, state unchanged); the contract is judged on the inner routes *)
EdgeMode == scn.orient = "edge"
Wrapped(r) == /\ Len(r) >= 3
              /\ r[1] = [e |-> scn.osrc, st |-> scn.init, acc |-> 0, trv |-> 0]
              /\ r[Len(r)] = [e |-> scn.odst, st |-> r[Len(r) - 1].st, acc |-> 0, trv |-> 0]
Inner(r) == IF EdgeMode /\ Len(r) >= 3 THEN SubSeq(r, 2, Len(r) - 1) ELSE r
AllWrapped == EdgeMode => \A i \in DOMAIN Ev.routes : Wrapped(RouteOfEv(Ev.routes[i]))
RoutesOfEv == [i \in DOMAIN Ev.routes |-> Inner(RouteOfEv(Ev.routes[i]))]
(* open findings of Yen's algorithm, each with its trigger *)
ShortestLen == Len(Ev.first_route)
YenKnown ==
   /\ kq.alg = "yens" /\ kq.k >= 2 /\ Reachable
   /\ \/ (Ev.outcome = "timeout" /\ Ev.first_len <= 2 /\ "F-C13-b" \in Devs /\ Known("C13", "F-C13-b"))
      \/ (Ev.outcome = "nopath" /\ "F-C13-c" \in Devs /\ Known("C13", "F-C13-c"))
      \/ (Ev.outcome = "timeout" /\ Ev.first_len > 2 /\ "F-C13-d" \in Devs /\ Known("C13", "F-C13-d"))
      \/ (Ev.outcome = "ok" /\ "F-C13-e" \in Devs /\ Known("C13", "F-C13-e"))
(* under the checks of C01 / C03 only the validity of every returned route (contiguous loop-free walk with
   correctly accumulated state and costs, incl. the re-oriented reverse half of single-via alternatives) is judged *)
Full == Enforce("C13") \/ Enforce("C10")
T_KResultRoutesOnly == /\ Ev.ev = "KResult" /\ ~Full /\ UNCHANGED <<scn, kq, remaining>> /\ Frozen
                       /\ Ev.outcome = "ok" => Chk("C01/C03 every returned route is a valid walk with accumulated state", AllWrapped /\ AllValid(RoutesOfEv))
                       /\ accepted' = <<>> /\ kdone' = TRUE
(* limits (C10): every sub-search of the alternatives algorithm meets the query's limits.  For single-via the two
   sub-searches are the plain forward and reverse searches, whose outcomes under the limits are recorded from separate
   plain runs: if one of them is stopped the whole query ends 'terminated', otherwise the limits change nothing. *)
Limited == scn.itl >= 0 \/ scn.szl >= 0
SubSearchStopped == Limited /\ (Ev.fwd_out = "terminated" \/ (Ev.fwd_out = "ok" /\ Ev.rev_out = "terminated"))
T_KResult == /\ Ev.ev = "KResult" /\ Full /\ UNCHANGED <<scn, kq, remaining>> /\ Frozen
             /\ IF SubSearchStopped
                THEN Chk("C10 a stopped sub-search ends the query as terminated", Ev.outcome = "terminated") /\ accepted' = <<>> /\ kdone' = TRUE
                ELSE IF ~Reachable
                THEN Chk("C13 unreachable destination reported as no path", Ev.outcome = "nopath") /\ accepted' = <<>> /\ kdone' = TRUE
                ELSE IF Ev.outcome = "ok" /\ kq.k >= 1 /\ AllWrapped /\ RoutesOK(RoutesOfEv, kq.k, kq.sim) /\ (Ev.n_accept_all < 0 \/ Ev.n_accept_all >= Len(Ev.routes))
                THEN accepted' = RoutesOfEv /\ kdone' = TRUE
                ELSE IF kq.k = 0 /\ Ev.outcome = "ok" /\ Ev.routes = <<>> THEN accepted' = <<>> /\ kdone' = TRUE
                ELSE IF YenKnown THEN accepted' = <<>> /\ kdone' = TRUE
                ELSE /\ Chk("C13 the query must be answered", Ev.outcome = "ok")
                     /\ Chk("C01 every route of an edge-oriented query starts with the origin edge and ends with the destination edge", AllWrapped)
                     /\ Chk("C13 between one and k routes", CountOK(RoutesOfEv, kq.k))
                     /\ Chk("C13 first route is a least-cost route", FirstOptimal(RoutesOfEv))
                     /\ Chk("C13 every route is a valid loop-free origin-destination route with accumulated state", AllValid(RoutesOfEv))
                     /\ Chk("C13 no two routes have the same edge sequence", Distinct(RoutesOfEv))
                     /\ Chk("C13 no two routes more similar than the threshold", Dissimilar(RoutesOfEv, kq.sim))
                     /\ Chk("C13 accept-all returns at least as many routes", Ev.n_accept_all < 0 \/ Ev.n_accept_all >= Len(Ev.routes))
                     /\ FALSE
(* Yen's algorithm under a limit against the same query without it: the limited run ends 'terminated' or returns
   exactly the unlimited result (never a truncated or different one) *)
(* contiguity alone (whether a Yen route repeats an edge, and its states, belong to the open finding F-C13-e) *)
Contiguous(r) == /\ r # <<>> /\ Near(r[1]) = scn.src /\ Far(r[Len(r)]) = scn.dst
                 /\ \A i \in 1..(Len(r) - 1) : Far(r[i]) = Near(r[i + 1])
T_KLimit == /\ Ev.ev = "KLimit" /\ UNCHANGED <<scn, kq, remaining, accepted, kdone>> /\ Frozen
            /\ Chk("C10 a limited k-shortest-paths query is terminated or returns the unlimited result",
                   IF Ev.unl_outcome = "ok" THEN Ev.lim_outcome = "terminated" \/ (Ev.lim_outcome = "ok" /\ Ev.lim_routes = Ev.unl_routes)
                   ELSE IF Ev.unl_outcome = "nopath" THEN Ev.lim_outcome \in {"terminated", "nopath"}
                   ELSE TRUE)
            /\ (Enforce("C01") /\ Ev.unl_outcome = "ok") =>
                  Chk("C01 every route Yen's algorithm returns is a contiguous origin-destination walk",
                      \A i \in DOMAIN Ev.unl_routes : Contiguous(EdgesOf(RouteOfEv(Ev.unl_routes[i]))))
TInit == /\ l = 1 /\ scn = Idle /\ queue = <<>> /\ g = <<>> /\ tree = <<>> /\ cur = 0 /\ lastE = 0 /\ todo = {} /\ iters = 0
         /\ outcome = "run" /\ pc = "idle" /\ reop = FALSE /\ exh = -1
         /\ kq = [k |-> 1, sim |-> [type |-> "accept_all", p |-> 0], alg |-> "svp", term |-> [type |-> "exact", n |-> 0]] /\ accepted = <<>> /\ remaining = {} /\ kdone = FALSE
TNext == l <= Len(Rec) /\ l' = l + 1 /\ (T_KSetup \/ T_KResult \/ T_KResultRoutesOnly \/ T_KLimit)
TSpec == TInit /\ [][TNext]_tvars
Track == TrackPos(l)
NotStop == NotStopped(l)
TraceAccepted == Accepted
=============================================================================
