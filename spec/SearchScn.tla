------------------------------ MODULE SearchScn ------------------------------
(* decoding of a recorded Setup event into the scenario record of Search, and the binding of the
   estimate / great-circle values it carries (shared by Trace_Search and Trace_Ksp) *)
EXTENDS Search, Frontier

Idle == [nv |-> 0, E |-> <<>>, hd |-> <<>>, src |-> 0, dst |-> 0, dir |-> "fwd", wd |-> 1, wt |-> 0,
         rd |-> 1, rt |-> 1, sur |-> <<>>, acc |-> "none", delay |-> [i \in 1..8 |-> 0], ok |-> <<>>,
         bad |-> {}, h |-> <<>>, itl |-> -1, szl |-> -1, init |-> <<0, 0>>, ties |-> TRUE,
         orient |-> "vertex", osrc |-> 0, odst |-> 0, cu |-> <<1000, 1, 1000, 1>>, rtf |-> 0, rtx |-> FALSE, bb |-> FALSE]

(* milli-cost per metre / per second of state change, from the units the STATE FEATURES are declared in
   (costs are charged on the feature's own numbers); the units the traversal / access models compute in
   (ev.units.distance / time / speed / delay) must not matter at all *)
CuD(u) == CASE u = "meters" -> <<1000, 1>> [] u = "kilometers" -> <<1, 1>>
CuT(u) == CASE u = "seconds" -> <<1000, 1>> [] u = "milliseconds" -> <<1000000, 1>>
            [] u = "minutes" -> <<50, 3>> [] u = "hours" -> <<5, 18>>
CuOf(ev) == CuD(ev.units.state_distance) \o CuT(ev.units.state_time)

ScnOf(ev) ==
   [nv |-> ev.nv,
    E |-> [e \in DOMAIN ev.E |-> <<ev.E[e][1], ev.E[e][2], ev.E[e][3],
                                    IF ev.model = "distance" THEN 0 ELSE ev.E[e][4]>>],   \* no time feature update
    hd |-> ev.hd, src |-> ev.src, dst |-> ev.dst, dir |-> ev.dir,
    wd |-> ev.wd, wt |-> ev.wt, rd |-> ev.rd, rt |-> ev.rt, sur |-> ev.sur, acc |-> ev.acc, delay |-> ev.delay,
    ok |-> [e \in DOMAIN ev.E |-> /\ (ev.allowed_on => \E i \in DOMAIN ev.allowed : ev.allowed[i] = ev.cls[e])
                                   /\ (ev.veh_on => VehicleOK(ev.vrestr[e], ev.veh))],     \* every model must permit the edge
    bad |-> {<<ev.bad[i][1], ev.bad[i][2]>> : i \in DOMAIN ev.bad},
    h |-> ev.h, itl |-> ev.itl, szl |-> ev.szl, init |-> ev.init, ties |-> TRUE,
    orient |-> ev.orient, osrc |-> ev.osrc, odst |-> ev.odst, cu |-> CuOf(ev), rtf |-> ev.rtf, rtx |-> ev.rtx,
    bb |-> ("bb" \in DOMAIN ev) /\ ev.bb,      \* black box: only Setup and End were recorded
    od |-> IF "od" \in DOMAIN ev THEN ev.od ELSE 0, ot |-> IF "ot" \in DOMAIN ev THEN ev.ot ELSE 0]

Abs(x) == IF x < 0 THEN -x ELSE x

(* the estimate the search was given must be the specified one:                             *)
(*   h(v) = weight factor x (wd*rd*gc + wt*rt*gc/vmax), gc = great-circle distance, each    *)
(*   part in the unit of its state feature,                                                  *)
(* and gc itself (the code's haversine, in decimetres) must be the small-angle distance of  *)
(* the milli-degree lattice coordinates within 1 percent.                                   *)
VMax(ev) == LET S == {ev.E[e][4] : e \in DOMAIN ev.E} IN CHOOSE x \in S : \A y \in S : y <= x
HSx(ev, gc, withOff) ==   \* the specified estimate for a great-circle distance of gc decimetres, in milli-cost (decimal floating point)
   LET cu == CuOf(ev)
       m  == SDiv(SInt(gc), SInt(10))
       dp == SDiv(SMul(SInt(ev.wd * ev.rd * cu[1]), m), SInt(cu[2]))
       tp == IF ev.model = "distance" \/ gc = 0 THEN SZero
             ELSE SDiv(SMul(SInt(ev.wt * ev.rt), SMul(SInt(cu[3]), SDiv(m, SInt(VMax(ev))))), SInt(cu[4]))
       off == SInt(1000 * ((IF "od" \in DOMAIN ev THEN ev.wd * ev.od ELSE 0) + (IF "ot" \in DOMAIN ev THEN ev.wt * ev.ot ELSE 0)))
   IN SDiv(SMul(SInt(ev.wf), SAdd(SAdd(dp, tp), IF withOff THEN off ELSE SZero)), SInt(1000))      \* the rates' constant terms are part of the estimate
HS(ev, gc) == HSx(ev, gc, TRUE)
(* tolerance: half a percent, plus what one decimetre of rounding in the logged distance is worth, plus 2 milli-cost *)
HClose(ev, v) == LET want == HS(ev, ev.gc[v])
                 IN SLeq(SAbs(SSub(SInt(ev.h[v]), want)), SAdd(SAdd(SDiv(want, SInt(200)), HSx(ev, 1, FALSE)), SInt(2)))
HOK(ev) == \/ ev.dst = 0 /\ \A v \in 1..ev.nv : ev.h[v] = 0
           \/ ev.dst # 0 /\ ev.est_mode = "script" /\
                \A v \in 1..ev.nv : Abs(ev.h[v] - ev.wf * ev.wd * ev.rd * ev.hscript[v]) <= 1
           \/ ev.dst # 0 /\ ev.est_mode = "real" /\ \A v \in 1..ev.nv : HClose(ev, v)
GcOK(ev) == ev.dst = 0 \/ ev.est_mode = "script" \/
            \A v \in 1..ev.nv :
               LET dx == ev.xy[v][1] - ev.xy[ev.dst][1]
                   dy == ev.xy[v][2] - ev.xy[ev.dst][2]
                   want == 1236433 * (dx * dx + dy * dy)         \* (1111.95 dm per milli-degree)^2
                   got == ev.gc[v] * ev.gc[v]
               IN Abs(got - want) <= (want \div 50) + 1000

=============================================================================
