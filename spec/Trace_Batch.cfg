SPECIFICATION TSpec
CONSTRAINT Track
INVARIANTS NotStop RunOK SinkOK
POSTCONDITION TraceAccepted
CHECK_DEADLOCK FALSE
