CONSTANTS
  NDim = 1
  MaxX = 4
  MaxV = 2
  Multilinear = FALSE
INIT Init
NEXT Next
INVARIANTS T1 T2 T3 T4
CHECK_DEADLOCK FALSE
