CONSTANTS
  MaxF = 2
  Small = FALSE
INIT Init
NEXT Next
INVARIANTS Positive EstNonNeg SumExact ZeroWeightIgnored LinearInWeights
CHECK_DEADLOCK FALSE
