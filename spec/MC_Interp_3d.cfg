CONSTANTS
  NDim = 3
  MaxX = 2
  MaxV = 1
  Multilinear = TRUE
INIT Init
NEXT Next
INVARIANTS T1 T2 T3 T4
CHECK_DEADLOCK FALSE
