------------------------------ MODULE MC_Output ------------------------------
(* routes of <= 3 edges over 4 edges with 2-3 point line strings, one geometry possibly missing: the specified
   rendering (each format computed from the same route) satisfies the contract, and the formats agree *)
EXTENDS Output
G == <<<<<<0, 0>>, <<1, 0>>>>, <<<<1, 0>>, <<1, 1>>, <<2, 1>>>>, <<<<2, 1>>, <<3, 1>>>>, <<<<3, 1>>, <<3, 2>>, <<4, 2>>>>>>
Geoms == {SubSeq(G, 1, n) : n \in 2..4}
Routes == UNION {[1..n -> 0..3] : n \in 1..3}
Spec(route, tree, geoms) ==
   LET okR == AllGeoms(geoms, route)  okT == AllGeoms(geoms, tree)
       lines == [i \in DOMAIN tree |-> IF HasGeom(geoms, tree[i]) THEN geoms[tree[i] + 1] ELSE <<>>]
   IN [edge_id |-> [ok |-> TRUE, ids |-> route], json |-> [ok |-> TRUE, ids |-> route],
       geo_json |-> [ok |-> okR, feats |-> [i \in DOMAIN route |-> [id |-> route[i], pid |-> route[i],
                                              coords |-> IF HasGeom(geoms, route[i]) THEN geoms[route[i] + 1] ELSE <<>>]]],
       wkt |-> [ok |-> okR, coords |-> IF okR THEN RouteGeometry(geoms, route) ELSE <<>>],
       wkb |-> [ok |-> okR, coords |-> IF okR THEN RouteGeometry(geoms, route) ELSE <<>>],
       tree_edge_id |-> [ok |-> TRUE, ids |-> tree], tree_json |-> [ok |-> TRUE, ids |-> tree],
       tree_geo_json |-> [ok |-> okT, lines |-> lines], tree_wkt |-> [ok |-> okT, lines |-> lines], tree_wkb |-> [ok |-> okT, lines |-> lines]]
Init == rq = [route |-> <<>>, tree |-> <<>>, geoms |-> <<>>] /\ rout = <<>>
Next == rout = <<>> /\ \E r \in Routes, t \in Routes, g \in Geoms : Render(r, t, g, Spec(r, t, g))
Rendered == rout # <<>> => AllFormatsOK
FormatsAgree == rout # <<>> => (rout.edge_id.ids = rout.json.ids /\ (rout.wkt.ok => rout.wkt.coords = rout.wkb.coords))
=============================================================================
