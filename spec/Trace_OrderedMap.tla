-------------------------- MODULE Trace_OrderedMap --------------------------
(* Validates recorded calls on the real CompactOrderedHashMap against        *)
(* OrderedMap: after every mutator the full observer record logged by the    *)
(* harness must equal the observers of the abstract sequence.                *)
EXTENDS OrderedMap, TraceLib

VARIABLE l
Ev == Rec[l]
tvars == <<m, rep, nops, hist, l>>

ObsOK(o) == IF o = AObs(m') THEN TRUE
            ELSE /\ "F-C11-a" \in Devs /\ o = CObs(rep') /\ Known("C11", "F-C11-a")

T_New == /\ Ev.ev = "New" /\ New(Ev.entries) /\ ObsOK(Ev.obs)
T_FromIter == /\ Ev.ev = "FromIter" /\ FromIter(Ev.entries) /\ ObsOK(Ev.obs)
T_Insert == /\ Ev.ev = "Insert" /\ Insert(Ev.k, Ev.v)
            /\ Ev.ret = AObs(m).get[Ev.k]
            /\ ObsOK(Ev.obs)

TInit == l = 1 /\ m = <<>> /\ rep = EmptyRep /\ nops = 0 /\ hist = <<>>
TNext == /\ l <= Len(Rec) /\ l' = l + 1 /\ UNCHANGED <<nops, hist>>
         /\ (T_New \/ T_FromIter \/ T_Insert)
TSpec == TInit /\ [][TNext]_tvars
Track == TrackPos(l)
NotStop == NotStopped(l)
TraceAccepted == Accepted
=============================================================================
