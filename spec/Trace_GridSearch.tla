-------------------------- MODULE Trace_GridSearch --------------------------
(* One event per MultiSet::next / generated query of the real code; each must *)
(* be exactly the next emission of the specification (the module is           *)
(* deterministic), and End is accepted only when the counter is exhausted.    *)
EXTENDS GridSearch, TraceLib
VARIABLE l
tvars == <<axes, base, pos, outPos, outQ, phase, l>>
Ev == Rec[l]

T_Start == Ev.ev = "Start" /\ Start(Ev.base, Ev.axes)
T_Emit  == /\ Ev.ev = "Emit" /\ phase = "run" /\ pos # None
           /\ IF Ev.mode = "multiset" THEN Ev.combo = pos ELSE Ev.q = Overlay(pos)
           /\ Emit
T_End   == Ev.ev = "End" /\ Ev.n = Len(outPos) /\ Finish

TInit == l = 1 /\ axes = <<>> /\ base = <<>> /\ pos = None /\ outPos = <<>> /\ outQ = <<>> /\ phase = "idle"
TNext == l <= Len(Rec) /\ l' = l + 1 /\ (T_Start \/ T_Emit \/ T_End)
TSpec == TInit /\ [][TNext]_tvars
Track == TrackPos(l)
NotStop == NotStopped(l)
TraceAccepted == Accepted
=============================================================================
