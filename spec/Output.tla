-------------------------------- MODULE Output --------------------------------
(***************************************************************************)
(* Route / tree output (plugin/output/default/traversal/*.rs, geo_io_utils,*)
(* uuid and summary plugins).                                              *)
(*   route  sequence of edge ids (0-based as in the files)                 *)
(*   tree   sequence of the branches' edge ids (any order)                 *)
(*   geoms  sequence of line strings (sequences of <<x, y>>), row = edge id*)
(* Every format renders the same route: the id list, the per-edge records, *)
(* the features and the geometry follow the edge sequence; the geometry is *)
(* the concatenation of the edges' stored line strings in order; a missing *)
(* geometry row makes the geometric formats fail.                          *)
(***************************************************************************)
EXTENDS Naturals, Sequences, FiniteSets, TLC

HasGeom(geoms, e) == e + 1 \in DOMAIN geoms
AllGeoms(geoms, route) == \A i \in DOMAIN route : HasGeom(geoms, route[i])
RECURSIVE Concat(_, _, _)
Concat(geoms, route, i) == IF i > Len(route) THEN <<>> ELSE geoms[route[i] + 1] \o Concat(geoms, route, i + 1)
RouteGeometry(geoms, route) == Concat(geoms, route, 1)

Count(s, x) == Cardinality({i \in DOMAIN s : s[i] = x})
SameBag(a, b) == Len(a) = Len(b) /\ \A i \in DOMAIN a : Count(a, a[i]) = Count(b, a[i])

VARIABLES rq, rout
ovars == <<rq, rout>>
Render(route, tree, geoms, out) == rq' = [route |-> route, tree |-> tree, geoms |-> geoms] /\ rout' = out

(* contract of the rendered outputs (out.<format> = [ok, ...]) *)
RouteIdsOK == rout.edge_id.ok /\ rout.edge_id.ids = rq.route
RouteJsonOK == rout.json.ok /\ rout.json.ids = rq.route
RouteGeoJsonOK == IF AllGeoms(rq.geoms, rq.route)
                  THEN /\ rout.geo_json.ok /\ Len(rout.geo_json.feats) = Len(rq.route)
                       /\ \A i \in DOMAIN rq.route :
                             /\ rout.geo_json.feats[i].id = rq.route[i] /\ rout.geo_json.feats[i].pid = rq.route[i]
                             /\ rout.geo_json.feats[i].coords = rq.geoms[rq.route[i] + 1]
                  ELSE ~rout.geo_json.ok
RouteWktOK == IF AllGeoms(rq.geoms, rq.route) THEN rout.wkt.ok /\ rout.wkt.coords = RouteGeometry(rq.geoms, rq.route)
              ELSE ~rout.wkt.ok
RouteWkbOK == IF AllGeoms(rq.geoms, rq.route) THEN rout.wkb.ok /\ rout.wkb.coords = RouteGeometry(rq.geoms, rq.route)
              ELSE ~rout.wkb.ok
TreeIdsOK == rout.tree_edge_id.ok /\ SameBag(rout.tree_edge_id.ids, rq.tree)
TreeJsonOK == rout.tree_json.ok /\ SameBag(rout.tree_json.ids, rq.tree)
TreeGeoOK(o) == IF AllGeoms(rq.geoms, rq.tree)
                THEN o.ok /\ SameBag(o.lines, [i \in DOMAIN rq.tree |-> rq.geoms[rq.tree[i] + 1]])      \* one entry per branch
                ELSE ~o.ok
(* the output plugin (route + tree in format f, or the route alone): it answers iff everything it was asked for can be
   rendered, and then carries the route exactly as the format renders it; otherwise it fails - the route never goes
   silently missing *)
Geometric(f) == f \in {"geo_json", "wkt", "wkb"}
RouteRenderable(q, f) == ~Geometric(f) \/ AllGeoms(q.geoms, q.route)
TreeRenderable(q, f) == ~Geometric(f) \/ AllGeoms(q.geoms, q.tree)
PluginBothOK(q, f, p) == p.built /\ IF RouteRenderable(q, f) /\ TreeRenderable(q, f) THEN p.ok /\ p.has_route /\ p.same /\ p.has_tree ELSE ~p.ok
PluginRouteOK(q, f, p) == p.built /\ IF RouteRenderable(q, f) THEN p.ok /\ p.has_route /\ p.same ELSE ~p.ok
AllFormatsOK == RouteIdsOK /\ RouteJsonOK /\ RouteGeoJsonOK /\ RouteWktOK /\ RouteWkbOK /\ TreeIdsOK /\ TreeJsonOK
                /\ TreeGeoOK(rout.tree_geo_json) /\ TreeGeoOK(rout.tree_wkt) /\ TreeGeoOK(rout.tree_wkb)
=============================================================================
