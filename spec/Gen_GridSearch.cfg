CONSTANTS
  MaxAxes = 3
  MaxLen = 3
INIT Init
NEXT Next
INVARIANTS EmitScn
CHECK_DEADLOCK FALSE
