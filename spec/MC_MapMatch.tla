----------------------------- MODULE MC_MapMatch -----------------------------
(* every set of <= MaxC candidates on an N x N lattice, every query point of the surrounding lattice,
   every admissibility subset, tolerance on/off around the occurring distances (gc := 1112 dm per milli-degree) *)
EXTENDS MapMatch
CONSTANTS N, MaxC
VARIABLES cs, building
ISqrt(n) == CHOOSE r \in 0..(2 * N + 4) : r * r <= n /\ (r + 1) * (r + 1) > n
Init == cs = <<>> /\ building = TRUE /\ mq = [cands |-> <<>>, q |-> <<0, 0>>, tol |-> [on |-> FALSE, dm |-> 0]] /\ mres = 0
KeyLT(a, b) == a[1] < b[1] \/ (a[1] = b[1] /\ a[2] < b[2])
Add == /\ building /\ Len(cs) < MaxC
       /\ \E x \in 1..N, y \in 1..N, adm \in BOOLEAN :
             /\ (IF cs = <<>> THEN TRUE ELSE KeyLT(<<cs[Len(cs)].x, cs[Len(cs)].y>>, <<x, y>>))
             /\ cs' = Append(cs, [x |-> x, y |-> y, adm |-> adm, gc |-> 0])
       /\ UNCHANGED <<building, mq, mres>>
Go == /\ building /\ Len(cs) >= 1
      /\ \E qx \in 0..(N + 1), qy \in 0..(N + 1), on \in BOOLEAN, t \in {500, 1500, 2500, 4000} :
           LET withgc == [i \in DOMAIN cs |-> [cs[i] EXCEPT !.gc = 1112 * ISqrt(D2(cs[i], <<qx, qy>>))]]
           IN \E r \in Results(withgc, <<qx, qy>>, [on |-> on, dm |-> t]) : Match(withgc, <<qx, qy>>, [on |-> on, dm |-> t], r)
      /\ building' = FALSE /\ UNCHANGED cs
Next == Add \/ Go
=============================================================================
