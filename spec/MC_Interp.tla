------------------------------ MODULE MC_Interp ------------------------------
(* every axis = strictly increasing subset of 0..MaxX (scaled by 2: coordinates are even, so query points on the
   half lattice are integers), values in 0..MaxV, every query point incl. grid lines and upper boundaries *)
EXTENDS Interp
CONSTANTS NDim, MaxX, MaxV, Multilinear
VARIABLES baxes, btab, stage
AxisSets == {S \in SUBSET (0..MaxX) : Cardinality(S) >= 2}
RECURSIVE SortSet(_)
SortSet(S) == IF S = {} THEN <<>> ELSE LET m == CHOOSE x \in S : \A y \in S : x <= y IN <<2 * m>> \o SortSet(S \ {m})
IdxSet(ax) == {f \in [1..Len(ax) -> 1..(MaxX + 1)] : \A d \in 1..Len(ax) : f[d] \in 1..Len(ax[d])}
Init == baxes = <<>> /\ btab = <<>> /\ stage = "axes" /\ iq = [axes |-> <<>>, tab |-> <<>>, p |-> <<>>]
AddAxis == /\ stage = "axes" /\ Len(baxes) < NDim
           /\ \E S \in AxisSets : baxes' = Append(baxes, SortSet(S))
           /\ UNCHANGED <<btab, stage, iq>>
MLCoefs == {<<a, b, c>> : a \in 0..1, b \in 0..2, c \in 0..1}
FillTab == /\ stage = "axes" /\ Len(baxes) = NDim
           /\ IF Multilinear
              THEN \E k \in MLCoefs :      \* f = a + b*x1 + c*x1*x2 (x2 = 1 in one dimension)
                      btab' = [i \in IdxSet(baxes) |-> k[1] + k[2] * baxes[1][i[1]]
                                                       + k[3] * baxes[1][i[1]] * (IF NDim >= 2 THEN baxes[2][i[2]] ELSE 1)]
              ELSE \E t \in [IdxSet(baxes) -> 0..MaxV] : btab' = t
           /\ stage' = "ask" /\ UNCHANGED <<baxes, iq>>
AskPoint == /\ stage = "ask"
            /\ \E p \in [1..NDim -> 0..(2 * MaxX)] : Ask(baxes, btab, p)
            /\ stage' = "done" /\ UNCHANGED <<baxes, btab>>
Next == AddAxis \/ FillTab \/ AskPoint
Asked == stage = "done"
T1 == Asked => LocatedCellContains
T2 == Asked => WithinCorners
T3 == Asked => GridPointExact
T4 == Asked => Continuous
(* a multilinear table is reproduced exactly *)
T5 == (Asked /\ Multilinear /\ InGrid(iq.axes, iq.p)) =>
         \E k \in MLCoefs : /\ \A i \in IdxSet(iq.axes) : iq.tab[i] = k[1] + k[2] * iq.axes[1][i[1]] + k[3] * iq.axes[1][i[1]] * (IF NDim >= 2 THEN iq.axes[2][i[2]] ELSE 1)
                            /\ Num = (k[1] + k[2] * iq.p[1] + k[3] * iq.p[1] * (IF NDim >= 2 THEN iq.p[2] ELSE 1)) * Den
=============================================================================
