------------------------------ MODULE Trace_Cli ------------------------------
(* Invocations of the real command_line_runner explained with the actions of Cli:                      *)
(*   Alone        each query of the file run alone through CompassApp::run (what its records must be)  *)
(*   CliStart     the arguments, the query file line by line, the format and the state of the response *)
(*                file before the call                                                                 *)
(*   CliRec       one event per record the call added to the response file, in file order: it must be  *)
(*                WriteRec of a response the *current* run still owes (the argument validation, the    *)
(*                chunking, the opening of the file and the end of a run are silent steps in between)  *)
(*   CliReturned  Ok / Err of the call: Ok iff the specification reached "done"                        *)
(*   CliEnd       header count, record count and whether the earlier contents are still in place       *)
EXTENDS Cli, TraceLib, SequencesExt
VARIABLES l, alone, csvsorted
tvars == <<args, qfile, fmt, disk, disk0, pc, next, chunk, todo, logged, runs, l, alone, csvsorted>>
Devs == TraceDevs
Ev == Rec[l]
Chk(name, cond) == IF cond THEN TRUE ELSE PrintT(<<"FAILED", name, l>>) /\ FALSE

T_Alone == /\ Ev.ev = "Alone" /\ pc \in {"idle", "ended"}
           /\ Chk("a single query must not fail the call", Ev.ok)
           /\ Chk("at least one response per query", Len(Ev.items) >= 1)
           /\ Chk("request echoed", \A i \in DOMAIN Ev.items : Ev.items[i].echo /\ Ev.items[i].qid = Ev.qid)
           /\ alone' = (Ev.qid :> Ev.items) @@ alone
           /\ UNCHANGED cvars /\ UNCHANGED csvsorted
LineOf(x) == IF x.kind = "q" THEN [kind |-> "q", js |-> {alone[x.qid][m].j : m \in DOMAIN alone[x.qid]}, qid |-> x.qid]
             ELSE [kind |-> "bad"]
T_CliStart == /\ Ev.ev = "CliStart" /\ pc \in {"idle", "ended"}
              /\ \A i \in DOMAIN Ev.lines : Ev.lines[i].kind = "q" => Ev.lines[i].qid \in DOMAIN alone
              /\ args' = [nd |-> Ev.nd, has |-> Ev.has, n |-> Ev.n, appok |-> Ev.appok, qok |-> Ev.qok]
              /\ qfile' = [shape |-> Ev.shape, lines |-> [i \in DOMAIN Ev.lines |-> LineOf(Ev.lines[i])]]
              /\ fmt' = Ev.fmt
              /\ disk' = [exists |-> Ev.pre_exists, headers |-> Ev.pre_headers, recs |-> [i \in 1..Ev.pre_recs |-> <<0, i>>]]
              /\ disk0' = disk'
              /\ pc' = "validate" /\ next' = 1 /\ chunk' = <<1, 0>> /\ todo' = {} /\ logged' = 0 /\ runs' = 0
              /\ csvsorted' = Ev.sorted /\ UNCHANGED alone
LineNo(qid) == CHOOSE i \in DOMAIN Lines : Lines[i].kind = "q" /\ Lines[i].qid = qid
SameAsAlone(r) == \E m \in DOMAIN alone[r.qid] : alone[r.qid][m].j = r.j /\ alone[r.qid][m].sum = r.sum
(* a CSV row does not name the expansion it answers: it is matched, by its cells, with a response the run still owes *)
CsvItemOK(it, r) == LET qid == Lines[it[1]].qid IN
                    \E m \in DOMAIN alone[qid] : LET s == alone[qid][m].sum IN
                       /\ alone[qid][m].j = it[2]
                       /\ s[3] = r.dist /\ s[4] = r.time /\ r.tot = (IF s[3] < 0 THEN -1 ELSE s[3] + s[4])
NormalCsvOK(r) == /\ \E i \in DOMAIN Lines : Lines[i].kind = "q" /\ Lines[i].qid = r.qid
                  /\ r.intact /\ r.ncells = r.ncols
                  /\ \E it \in todo : it[1] = LineNo(r.qid) /\ CsvItemOK(it, r)
(* Named deviation F-C19-c (open finding): with `sorted = false` the column order is the iteration order of a hash map  *)
(* filled when the configuration is loaded, i.e. it differs from one application instance to the next.  Rows appended  *)
(* by an instance other than the one that wrote the header hold the right cells in an order that is not the header's. *)
(* Accepted only under that trigger, only for a complete row, and only if its numeric cells are exactly those of a     *)
(* response the current run still owes.                                                                               *)
DevTrigger == "F-C19-c" \in Devs /\ fmt = "csv" /\ ~csvsorted /\ disk0.exists
NumBagOf(qid, s) == IF s[3] < 0 THEN <<qid>> ELSE SortSeq(<<qid, s[3], s[4], s[3] + s[4]>>, LAMBDA a, b : a < b)
DevMatch(it, r) == LET qid == Lines[it[1]].qid IN
                   \E m \in DOMAIN alone[qid] : alone[qid][m].j = it[2] /\ NumBagOf(qid, alone[qid][m].sum) = r.nums
DevRowOK(r) == r.intact /\ r.ncells = r.ncols /\ \E it \in todo : DevMatch(it, r)
T_CliRec == /\ Ev.ev = "CliRec" /\ pc = "write" /\ todo # {}
            /\ IF fmt = "json"
               THEN /\ Chk("C19 the record belongs to a query of the file", \E i \in DOMAIN Lines : Lines[i].kind = "q" /\ Lines[i].qid = Ev.qid)
                    /\ Chk("C19 every record parses back to a response with its request", Ev.intact /\ Ev.echo)
                    /\ Chk("C06 record equals the query's answer alone", SameAsAlone(Ev))
                    /\ Chk("C19 a record the current run owes (none lost, duplicated, out of chunk order)", <<LineNo(Ev.qid), Ev.j>> \in todo)
                    /\ WriteRec(<<LineNo(Ev.qid), Ev.j>>)
               ELSE IF NormalCsvOK(Ev) THEN WriteRec(CHOOSE it \in todo : it[1] = LineNo(Ev.qid) /\ CsvItemOK(it, Ev))
               ELSE IF DevTrigger /\ DevRowOK(Ev)
               THEN Known("C19", "F-C19-c") /\ WriteRec(CHOOSE it \in todo : DevMatch(it, Ev))
               ELSE Chk("C19 row cells follow the mapping in header order and the record is one the current run owes (none lost, duplicated, out of chunk order)", FALSE)
            /\ UNCHANGED <<alone, csvsorted>>
T_CliReturned == /\ Ev.ev = "CliReturned" /\ pc \in {"done", "failed"}
                 /\ Chk("the call returns Ok exactly when the invocation is well formed", Ev.ok = (pc = "done"))
                 /\ UNCHANGED cvars /\ UNCHANGED <<alone, csvsorted>>
T_CliEnd == /\ Ev.ev = "CliEnd" /\ pc \in {"done", "failed"}
            /\ Chk("C19 the file exists iff a run opened it", Ev.exists = disk.exists)
            /\ Chk("C19 single header", Ev.headers = disk.headers)
            /\ Chk("C19 one record per response", Ev.nrecs = Len(disk.recs))
            /\ Chk("C19 earlier contents still in place", Ev.pre_kept)
            /\ Chk("C06 every unparsable line is reported (and none is written)", Ev.reported = logged)
            /\ pc' = "ended" /\ UNCHANGED <<args, qfile, fmt, disk, disk0, next, chunk, todo, logged, runs, alone, csvsorted>>
(* silent steps: everything of Cli that leaves no record; without a response file the deliveries are silent too *)
S_Step == CliStep /\ UNCHANGED <<l, alone, csvsorted>>
S_Write == /\ fmt = "none" /\ pc = "write" /\ todo # {} /\ WriteRec(CHOOSE it \in todo : TRUE) /\ UNCHANGED <<l, alone, csvsorted>>

TInit == /\ l = 1 /\ alone = <<>> /\ csvsorted = TRUE /\ pc = "idle" /\ next = 1 /\ chunk = <<1, 0>> /\ todo = {} /\ logged = 0 /\ runs = 0
         /\ args = [nd |-> FALSE, has |-> FALSE, n |-> 0, appok |-> TRUE, qok |-> TRUE]
         /\ qfile = [shape |-> "lines", lines |-> <<>>] /\ fmt = "none"
         /\ disk = [exists |-> FALSE, headers |-> 0, recs |-> <<>>] /\ disk0 = disk
TNext == \/ (l <= Len(Rec) /\ l' = l + 1 /\ (T_Alone \/ T_CliStart \/ T_CliRec \/ T_CliReturned \/ T_CliEnd))
         \/ S_Step \/ S_Write
TSpec == TInit /\ [][TNext]_tvars
Track == TrackPos(l)
NotStop == NotStopped(l)
TraceAccepted == Accepted
Live == pc \notin {"idle", "ended"}
InvAppendOnly == Live => AppendOnly
InvHeaderOnce == Live => HeaderOnce
InvNoDuplicates == Live => NoDuplicates
InvChunkOrder == Live => ChunkOrder
InvComplete == Live => Complete
InvRefused == Live => RefusedUntouched
=============================================================================
