------------------------------- MODULE MapMatch -------------------------------
(***************************************************************************)
(* Map matching (vertex_rtree/plugin.rs, edge_rtree/*.rs): a query         *)
(* coordinate is matched to the candidate nearest under the plugin's own   *)
(* measure (squared coordinate distance; for edges to the line string's    *)
(* centroid), among the admissible candidates for edges; a configured      *)
(* tolerance (great-circle distance of that candidate) turns a far match   *)
(* into an error.  Candidates live on an integer lattice (milli-degrees).  *)
(*   cands  sequence of [x, y, adm, gc]   gc: great-circle distance to the *)
(*          query point in decimetres (supplied by the code's haversine)   *)
(*   tol    [on, dm]                      tolerance in decimetres          *)
(***************************************************************************)
EXTENDS Naturals, Integers, Sequences, FiniteSets, TLC

D2(c, q) == (c.x - q[1]) * (c.x - q[1]) + (c.y - q[2]) * (c.y - q[2])
Adm(cands) == {i \in DOMAIN cands : cands[i].adm}
Nearest(cands, q) == {i \in Adm(cands) : \A j \in Adm(cands) : D2(cands[i], q) <= D2(cands[j], q)}
(* the result of an exhaustive scan: a nearest admissible candidate within tolerance, or 0 (error) *)
Within(c, tol) == ~tol.on \/ c.gc < tol.dm
Results(cands, q, tol) == IF Adm(cands) = {} THEN {0}
                          ELSE {IF Within(cands[i], tol) THEN i ELSE 0 : i \in Nearest(cands, q)}

VARIABLES mq, mres
mmvars == <<mq, mres>>
Match(cands, q, tol, r) == /\ r \in Results(cands, q, tol)
                           /\ mq' = [cands |-> cands, q |-> q, tol |-> tol] /\ mres' = r
(* C16 on the recorded result *)
MatchOK == mres # 0 => /\ mq.cands[mres].adm
                       /\ \A j \in Adm(mq.cands) : D2(mq.cands[mres], mq.q) <= D2(mq.cands[j], mq.q)
                       /\ Within(mq.cands[mres], mq.tol)
ErrorOK == mres = 0 => (Adm(mq.cands) = {} \/ \E i \in Nearest(mq.cands, mq.q) : ~Within(mq.cands[i], mq.tol))
=============================================================================
