CONSTANTS
  NV = 3
  MaxE = 2
  Lens = {36, 72}
  Spds = {1, 2}
  Heads = {0}
  HVals = {0, 30}
  Dirs = {"fwd"}
  TieVals = {FALSE}
  MaxBad = 0
  Limits <- NoLimits
  Delays <- NoDelay
  Weights <- Blend
  Surs = {0}
  CUs <- MixedCU
  Rts <- NoRt
  NoDst = FALSE
  OkSubsets = FALSE
  NeedConsistent = FALSE
INIT Init
CHECK_DEADLOCK FALSE
NEXT NextGen
INVARIANTS Emit
