---------------------------- MODULE Trace_MapMatch ----------------------------
(* One Match event per real RTreePlugin / EdgeRtreeInputPlugin call.  The event carries  *)
(* the full candidate list (lattice coordinates, class, restrictions, great-circle       *)
(* distance from the code's own haversine), so "identical to an exhaustive scan" and the *)
(* tolerance rule are decided by TLC.                                                     *)
EXTENDS MapMatch, Frontier, TraceLib
VARIABLE l
tvars == <<mq, mres, l>>
Ev == Rec[l]
Chk(name, cond) == IF cond THEN TRUE ELSE PrintT(<<"FAILED", name, l>>) /\ FALSE
Abs(x) == IF x < 0 THEN -x ELSE x

CandsOf(ev) == [i \in DOMAIN ev.cands |->
                  [x |-> ev.cands[i].x, y |-> ev.cands[i].y, gc |-> ev.cands[i].gc,
                   adm |-> IF ev.kind = "vertex" THEN TRUE
                           ELSE /\ ClassOK(ev.cands[i].cls, ev.allowed_on, ev.allowed)
                                /\ (ev.veh_on => VehicleOK(ev.cands[i].restr, ev.veh))]]
TolOf(ev) == [on |-> ev.tol.on, dm |-> (ev.tol.val * Size.distance[ev.tol.unit]) \div 1000]
(* lattice unit = 1e-4 degree = 111.195 dm: the logged great-circle distance must be that of the lattice (2 %) *)
GcOK(ev) == \A i \in DOMAIN ev.cands :
               LET dx == ev.cands[i].x - ev.q[1]  dy == ev.cands[i].y - ev.q[2]
                   d2 == dx * dx + dy * dy
                   gc == ev.cands[i].gc
               IN IF gc <= 30000
                  THEN LET want == 12364 * d2          \* (111.195 dm)^2 per squared unit, in dm^2
                           got == gc * gc
                       IN d2 <= 100000 /\ Abs(got - want) <= (want \div 25) + 400
                  ELSE LET want == (d2 \div 10) * 1236   \* far points: in m^2 (32-bit integers)
                           got == (gc \div 10) * (gc \div 10)
                       IN Abs(got - want) <= (want \div 25) + 400
T_Match == /\ Ev.ev = "Match"
           /\ Chk("great-circle distances", GcOK(Ev))
           /\ Chk("C16 other query fields unchanged", Ev.unchanged)
           /\ Chk("C16 nearest admissible candidate within tolerance, else an error", Ev.res \in Results(CandsOf(Ev), Ev.q, TolOf(Ev)))
           /\ Match(CandsOf(Ev), Ev.q, TolOf(Ev), Ev.res)
TInit == l = 1 /\ mq = [cands |-> <<>>, q |-> <<0, 0>>, tol |-> [on |-> FALSE, dm |-> 0]] /\ mres = 0
TNext == l <= Len(Rec) /\ l' = l + 1 /\ T_Match
TSpec == TInit /\ [][TNext]_tvars
Track == TrackPos(l)
NotStop == NotStopped(l)
TraceAccepted == Accepted
=============================================================================
