CONSTANTS
  NV = 2
  MaxRows = 9
  Star = TRUE
INIT Init
NEXT Next
INVARIANTS TopologyOK AdjRevSame
CHECK_DEADLOCK FALSE
