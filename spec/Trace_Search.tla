---------------------------- MODULE Trace_Search ----------------------------
(* Validates recorded searches of the real code against Search.  The recorded *)
(* events are Setup / Relax (one per incident edge, from the decorators) /    *)
(* End (result).  Termination tests, pops and the end of an expansion are     *)
(* not observable from outside and are silent steps of the specification.     *)
EXTENDS SearchScn, TraceLib

VARIABLES l,
          mustExh   \* the recording says the time budget is certainly used up by now (a model call slept past it)
tvars == <<scn, queue, g, tree, cur, lastE, todo, iters, outcome, pc, reop, exh, l, mustExh>>
Ev == Rec[l]
Devs == TraceDevs
Chk(name, cond) == IF cond THEN TRUE ELSE PrintT(<<"FAILED", name, l>>) /\ FALSE

(* Black-box recordings (a query submitted through the application): nothing between Setup and End is observed, so  *)
(* relaxations are silent steps too, taken in increasing edge order (the order only matters on exact ties, which are  *)
(* resolved either way), and TLC looks for a behaviour of Search that ends in the recorded response.                  *)
BB == scn.bb

(* edge-oriented queries: the origin / destination are edges; the search runs between the origin edge's end
   vertex and the destination edge's start vertex (scn.src / scn.dst), and the wrapper adds the two edges with
   zero cost and unchanged state.  When the two edges are adjacent there is no inner search: both are traversed. *)
EdgeMode == scn.orient = "edge"
Adjacent(ev) == ev.orient = "edge" /\ ev.odst # 0 /\ ev.E[ev.osrc][2] = ev.E[ev.odst][1]
T_Setup == /\ Ev.ev = "Setup" /\ pc = "idle"
           /\ Chk("initial state", Ev.init_obs = Ev.init)
           /\ Chk("estimate", Adjacent(Ev) \/ HOK(Ev))
           /\ Chk("great-circle", Adjacent(Ev) \/ GcOK(Ev))
           /\ mustExh' = FALSE
           /\ IF Adjacent(Ev)
              THEN /\ scn' = ScnOf(Ev) /\ pc' = "done" /\ outcome' = "ok" /\ tree' = <<>> /\ g' = <<>> /\ queue' = <<>>
                   /\ cur' = 0 /\ lastE' = 0 /\ todo' = {} /\ iters' = 0 /\ reop' = FALSE /\ exh' = -1
              ELSE Setup(ScnOf(Ev))

(* A Relax event groups what the decorators saw about one incident edge.  Only what the property      *)
(* family depends on is compared: the frontier verdict and the last edge it was given (when the       *)
(* frontier model was consulted), the state handed to and produced by the access and traversal        *)
(* models (when they were called for a permitted edge), and the vertex an estimate was requested for. *)
(* Whether the label improved is not logged: it is decided by the specification's own comparison      *)
(* (either way on an exact tie) and pinned by the rest of the trace and the final tree.               *)
T_Relax == /\ Ev.ev = "Relax" /\ pc = "relax"
           /\ LET e == Ev.e IN
                /\ e \in todo
                /\ Ev.fcalled => (Ev.last = lastE /\ Ev.cs = St(cur) /\ Ev.valid = Valid(e, lastE))
                /\ ~Ev.fcalled => Valid(e, lastE)
                /\ (Valid(e, lastE) /\ Ev.te # 0) =>
                        /\ Ev.te = e
                        /\ Ev.tb = AccSt(St(cur), lastE, e)
                        /\ Ev.st = NextSt(St(cur), lastE, e)
                        /\ Ev.ae # <<>> => (Ev.ae = <<First(lastE, e), Second(lastE, e)>> /\ Ev.as = Ev.tb)
                        /\ (Ev.ae = <<>> /\ lastE # 0) => Delay(lastE, e) = 0
                /\ (Valid(e, lastE) /\ Ev.est # -1) => Ev.est = Far(e)
                /\ \E imp \in BOOLEAN : (imp => (Ev.te # 0)) /\ Relax(e, imp)
           /\ mustExh' = (mustExh \/ Ev.slept)

TreeRows == {[v |-> v, p |-> tree[v].p, e |-> tree[v].e, st |-> tree[v].st, acc |-> tree[v].acc, trv |-> tree[v].trv]
               : v \in DOMAIN tree}
RouteRows == LET w == Walk(tree, scn.dst) IN
               [i \in 1..Len(w) |-> [e |-> tree[w[i]].e, st |-> tree[w[i]].st, acc |-> tree[w[i]].acc, trv |-> tree[w[i]].trv]]

(* a response without a route does not say how its state vectors are laid out: its tree rows carry no state *)
Mask(r) == IF BB /\ ~Ev.tree_st THEN [r EXCEPT !.st = <<>>] ELSE r
T_End == /\ Ev.ev = "End" /\ pc = "done"
         /\ Chk("outcome", Ev.outcome = outcome)
         /\ outcome = "terminated" =>
               Chk("limit named", /\ Ev.msg_iter = (scn.itl >= 0 /\ iters + 1 > scn.itl)
                                  /\ Ev.msg_size = (scn.szl >= 0 /\ Cardinality(DOMAIN tree) > scn.szl)
                                  /\ Ev.msg_rt = (Sched /\ exh >= 0))
         /\ (outcome = "ok" /\ ~EdgeMode) =>
               /\ Chk("iterations", BB \/ Ev.iters = iters)
               /\ Chk("tree", Len(Ev.tree) = Cardinality(TreeRows) /\ {Ev.tree[i] : i \in DOMAIN Ev.tree} = {Mask(r) : r \in TreeRows})
               /\ Chk("one tree", Ev.ntrees = 1)
               /\ scn.dst # 0 => /\ Chk("one route", Ev.nroutes = 1)
                                 /\ Chk("route", Walk(tree, scn.dst) # <<0>> /\ Ev.route = RouteRows)
               /\ scn.dst = 0 => Chk("no route", Ev.nroutes = 0)
         /\ (outcome = "ok" /\ EdgeMode) =>
               LET o == scn.osrc  d == scn.odst
                   wrapVs == {EDst(o)} \cup (IF d = 0 THEN {} ELSE {EDst(d)})
                   evRows == {Ev.tree[i] : i \in DOMAIN Ev.tree}
               IN /\ Chk("one tree", Ev.ntrees = 1)
                  \* C01: every returned tree entry records an edge that joins its parent to its own vertex
                  /\ Chk("C01 tree entries join parent to vertex", \A r \in evRows : ESrc(r.e) = r.p /\ EDst(r.e) = r.v)
                  /\ Chk("tree (away from the origin / destination edge ends)",
                         {r \in evRows : r.v \notin wrapVs} = {Mask(r) : r \in {x \in TreeRows : x.v \notin wrapVs}})
                  /\ d = 0 => Chk("no route", Ev.nroutes = 0)
                  /\ d # 0 =>
                       /\ Chk("one route", Ev.nroutes = 1)
                       /\ IF EDst(o) = ESrc(d)      \* adjacent edges: both are traversed
                          THEN LET st1 == NextSt(scn.init, 0, o) IN
                               Chk("C01/C03 adjacent origin and destination edges",
                                   Ev.route = <<[e |-> o, st |-> st1, acc |-> 0, trv |-> Total(scn.init, 0, o)],
                                                [e |-> d, st |-> NextSt(st1, o, d), acc |-> AccCost(st1, o, d), trv |-> TrvCost(st1, o, d)]>>)
                          ELSE LET inner == RouteRows
                                   lastSt == IF inner = <<>> THEN scn.init ELSE inner[Len(inner)].st
                               IN Chk("C01/C03 route = origin edge, searched part, destination edge",
                                      /\ Walk(tree, scn.dst) # <<0>>
                                      /\ Ev.route = <<[e |-> o, st |-> scn.init, acc |-> 0, trv |-> 0]>> \o inner
                                                     \o <<[e |-> d, st |-> lastSt, acc |-> 0, trv |-> 0]>>)
         /\ (outcome = "ok" /\ EdgeMode) => Chk("iterations (edge oriented)", BB \/ Ev.iters = iters + (IF scn.odst = 0 THEN 1 ELSE IF scn.src = scn.dst THEN 1 ELSE 2))
         /\ (BB /\ outcome = "ok") =>
               /\ Chk("one response echoing the query", Ev.nresp = 1 /\ Ev.echo)
               /\ (Ev.nroutes = 1) => Chk("C03 the route summary is the state after the last edge",
                                          Ev.route # <<>> /\ Ev.summary = Ev.route[Len(Ev.route)].st)
         /\ (Enforce("C01") /\ ~(EdgeMode /\ scn.src = scn.dst)) => Chk("C01 route is a contiguous walk", DoneC01)
         /\ (Enforce("C02") /\ ~(EdgeMode /\ scn.src = scn.dst)) => Chk("C02 least cost", DoneC02)
         /\ (Enforce("C05") /\ ~(EdgeMode /\ scn.src = scn.dst)) => Chk("C05 no-path iff unreachable / tree = reachable set", DoneC05)
         /\ Enforce("C10") => Chk("C10 terminated only when a limit fired", DoneC10)
         /\ (Enforce("C04") /\ outcome = "ok" /\ scn.dst # 0 /\ scn.src # scn.dst) =>
               IF RouteTurnsOK THEN TRUE
               ELSE IF ~Fwd /\ RouteTurnsAsCoded /\ "F-C04-a" \in Devs THEN Known("C04", "F-C04-a")
               ELSE IF reop /\ "F-C04-b" \in Devs THEN Known("C04", "F-C04-b")
               ELSE Chk("C04 route contains a restricted turn", FALSE)
         /\ (Enforce("C03") /\ outcome = "ok" /\ scn.dst # 0 /\ scn.src # scn.dst) =>
               IF RouteSumsOK THEN TRUE
               ELSE IF reop /\ ~(scn.bad = {} /\ NoAccess) /\ "F-C03-a" \in Devs THEN Known("C03", "F-C03-a")
               ELSE Chk("C03 route state/cost is not the sum over its edges", FALSE)
         /\ pc' = "idle"
         /\ UNCHANGED <<scn, queue, g, tree, cur, lastE, todo, iters, outcome, reop, exh, mustExh>>

(* silent steps (not observable through the decorators); pruned by the next recorded event *)
NextIsRelaxAt(v) == l <= Len(Rec) /\ Ev.ev = "Relax" /\ Near(Ev.e) = v
S_Test == /\ TermTest /\ UNCHANGED <<l, mustExh>>
          /\ (mustExh /\ RtOn) => exh' >= 0          \* a budget that is certainly used up is seen as used up
S_Pop  == /\ Pop /\ UNCHANGED <<l, mustExh>>
          /\ (pc' = "relax" /\ todo' # {}) => (BB \/ NextIsRelaxAt(cur'))
          /\ pc' = "done" => (l <= Len(Rec) /\ Ev.ev = "End")
S_EndExpand == EndExpand /\ UNCHANGED <<l, mustExh>>
S_Relax == /\ BB /\ pc = "relax" /\ todo # {}
           /\ LET e == CHOOSE x \in todo : \A y \in todo : x <= y IN \E imp \in BOOLEAN : Relax(e, imp)
           /\ UNCHANGED <<l, mustExh>>

(* a termination section built by the configuration builder: the limits in force are the configured ones - the time *)
(* budget is BudgetSeconds of the written H:MM:SS, the check frequency, iteration and size limits are taken as given, *)
(* members of a combined section keep their order; an ill-formed budget is refused                                  *)
T_TermBuilt == /\ Ev.ev = "TermBuilt" /\ pc = "idle"
               /\ Chk("C10 a well-formed termination section builds, an ill-formed time budget is refused", Ev.ok = Ev.wellformed)
               /\ Ev.ok => Chk("C10 the limits in force are the configured ones",
                               Ev.models = (IF Ev.combined
                                            THEN <<<<"it", Ev.itl, 0, 0>>, <<"rt", BudgetSeconds(Ev.h, Ev.m, Ev.s), 0, Ev.freq>>, <<"sz", Ev.szl, 0, 0>>>>
                                            ELSE <<<<"rt", BudgetSeconds(Ev.h, Ev.m, Ev.s), 0, Ev.freq>>>>))
               /\ UNCHANGED <<scn, queue, g, tree, cur, lastE, todo, iters, outcome, pc, reop, exh, mustExh>>
TInit == /\ l = 1 /\ scn = Idle /\ queue = <<>> /\ g = <<>> /\ tree = <<>> /\ cur = 0 /\ lastE = 0
         /\ todo = {} /\ iters = 0 /\ outcome = "run" /\ pc = "idle" /\ reop = FALSE /\ exh = -1 /\ mustExh = FALSE
TNext == \/ (l <= Len(Rec) /\ l' = l + 1 /\ (T_Setup \/ T_Relax \/ T_End \/ T_TermBuilt))
         \/ S_Test \/ S_Pop \/ S_EndExpand \/ S_Relax
TSpec == TInit /\ [][TNext]_tvars
Track == TrackPos(l)
NotStop == NotStopped(l)
TraceAccepted == Accepted
=============================================================================
