SPECIFICATION TSpec
CONSTRAINT Track
INVARIANTS NotStop InvAppendOnly InvHeaderOnce InvNoDuplicates InvChunkOrder InvComplete InvRefused
POSTCONDITION TraceAccepted
CHECK_DEADLOCK FALSE
