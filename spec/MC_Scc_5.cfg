CONSTANTS
  NV = 5
  Loops = FALSE
INIT Init
NEXT Next
INVARIANTS ResultOK Pass2Inv
CHECK_DEADLOCK FALSE
